"""
Seeded random programs beyond the bounds TLC can enumerate (more activities, float dates,
many pending dates).  They have no model expectation; the recorded traces are validated by
TLC against the property monitors.  Float dates are mapped to their rank among all dates of
the trace (TLC has no floats; the monitors only need order and equality of dates).
"""
import math
import random

DURS = [0.1, 0.2, 0.3, 0.4, 0.6, 0.7, 0.9, 1, 1.1, 1.5, 2, 2.5, 3, 0.001]
STARTS = [0, 0, 0.3, -10, 5, 100.1, 0.2]
# clocks so large that small delays are absorbed by float rounding (now + d == now), and the end of time
HUGE_STARTS = [2.0 ** 53, 1e16, 1.7e18]
INF = float('inf')


def timing_program(rng, nroots=None, depth=0):
    """a program made of timed waits, delayed children and until-blocks with float dates"""
    start = rng.choice(STARTS) if rng.random() < 0.9 else rng.choice(HUGE_STARTS)
    nroots = nroots or rng.randint(2, 8)
    forever = rng.random() < 0.08          # some programs run on to the end of time

    def date():
        if forever and rng.random() < 0.2:
            return INF
        return round(start + rng.choice([-1, 0, 0, 1, 1, 1]) * rng.choice(DURS) * rng.randint(0, 4), 6)

    def dur():
        if forever and rng.random() < 0.15:
            return INF
        if start >= 2.0 ** 53 and rng.random() < 0.5:
            return rng.choice([1, 2, 1024, 4096, 1e6])      # some absorbed by the clock, some not
        return rng.choice(DURS)

    def ops(n, lvl):
        out = []
        for _ in range(n):
            r = rng.random()
            if r < 0.35:
                out.append({'op': 'sleep', 'd': dur()})
            elif r < 0.5:
                out.append({'op': 'await_c', 'c': [rng.choice(['ge', 'ge', 'eq', 'lt']), date()]})
            elif r < 0.56:
                # a condition object built now (possibly for the current time) and awaited later, inside an until-block
                # so that a wait that can no longer end does not stop the program
                j = rng.randint(1, 3)
                out += [{'op': 'mkc', 'j': j, 'c': [rng.choice(['eq', 'eq', 'ge', 'lt']), rng.choice(['now', 'now', date()])]},
                        {'op': 'sleep', 'd': rng.choice([0.5, 1, 2])},
                        {'op': 'open', 'kind': 'until_d', 'd': 1, 'catch': True}, {'op': 'await_c', 'j': j, 'c': ['inst']},
                        {'op': 'leave'}]
            elif r < 0.58:
                # ONE condition object used twice: awaited (or watched by an until-block that ends first) before its
                # date, then watched by an until-block again - before, at or after the date
                j = rng.randint(4, 6)
                c = [rng.choice(['ge', 'ge', 'eq']), round(start + rng.choice(DURS) * rng.randint(1, 4), 6)]
                out += [{'op': 'mkc', 'j': j, 'c': c}]
                if rng.random() < 0.5:
                    out += [{'op': 'await_c', 'j': j, 'c': ['inst']}]
                else:
                    out += [{'op': 'open', 'kind': 'until_c', 'j': j, 'c': ['inst'], 'catch': True},
                            {'op': 'sleep', 'd': rng.choice([0.5, 1])}, {'op': 'leave'}]
                out += [{'op': 'sleep', 'd': rng.choice([0.5, 1, 2])}] * rng.randint(0, 1)
                out += [{'op': 'open', 'kind': 'until_c', 'j': j, 'c': ['inst'], 'catch': True},
                        {'op': 'sleep', 'd': rng.choice([1, 2])}, {'op': 'leave'}]
            elif r < 0.6:
                out.append({'op': 'instant'})
            elif r < 0.8 and lvl < 2:
                kind = rng.choice(['scope', 'until_d', 'until_c'])
                o = {'op': 'open', 'kind': kind, 'catch': True}
                if kind == 'until_d':
                    o['d'] = dur()
                if kind == 'until_c':
                    o['c'] = [rng.choice(['ge', 'eq']), date()]
                out.append(o)
                for _ in range(rng.randint(0, 3)):
                    child = {'op': 'do', 's': -1, 'vol': rng.random() < 0.2, 'fin': 'none',
                             'prog': ops(rng.randint(0, 3), lvl + 1)}
                    if rng.random() < 0.5:
                        child['d'] = dur()
                    elif rng.random() < 0.5:
                        child['at_rel'] = rng.choice(DURS) * rng.randint(0, 3)   # resolved to now + x at run time
                    elif rng.random() < 0.7:
                        # an absolute date on a decimal grid (used only if it is not in the past when issued)
                        child['at_abs'] = round(start + rng.choice(DURS) * rng.randint(1, 6), 6)
                    out.append(child)
                out += ops(rng.randint(0, 2), lvl + 1)
                out.append({'op': 'leave'})
            else:
                out.append({'op': 'sleep', 'd': rng.choice(DURS) * rng.randint(1, 3)})
        return out
    return {'start': start, 'roots': [ops(rng.randint(1, 5), 0) for _ in range(nroots)]}


def tick_program(rng):
    """tickers with dyadic periods, bodies shorter / equal / longer than the period, various start times"""
    start = rng.choice([-10, -10, -2.5, 0, 0, 3, 7.5])
    per = [0, 0.5, 1, 1.5, 2, 2.5, 5, -1]
    if rng.random() < 0.1:
        per = per + [INF, INF]          # a period of infinity: the first tick comes at the end of time
    roots = []
    for _ in range(rng.randint(1, 4)):
        ops = []
        slots = [{'i': i + 1, 'kind': rng.choice(['interval', 'delay']), 'p': rng.choice(per)} for i in range(2)]
        wrap = rng.random() < 0.3
        if rng.random() < 0.3:
            # the ticker objects are made ahead of time (as when they are handed to a worker that starts later)
            ops += [dict(op='mktick', **sl) for sl in slots if sl['p'] >= 0]
            ops.append({'op': 'sleep', 'd': rng.choice([0.5, 1, 2.5, 3, 7])})
        if wrap:
            ops.append({'op': 'open', 'kind': 'until_d', 'd': rng.choice([2, 5, 7.5, 10]), 'catch': True})
        for _ in range(rng.randint(2, 7)):
            sl = rng.choice(slots)
            ops.append(dict(op='tick', **sl))
            r = rng.random()
            if r < 0.5:
                ops.append({'op': 'sleep', 'd': rng.choice([0.5, 1, 1.5, 2, 2.5, 3, 5, 5.5])})
            elif r < 0.7:
                ops.append({'op': 'instant'})
        if wrap:
            ops.append({'op': 'leave'})
        roots.append(ops)
    if rng.random() < 0.5:
        roots.append([{'op': 'instant'}] * rng.randint(1, 6))      # a spinner
    return {'start': start, 'roots': roots}


def res_program(rng):
    """holders of one supply that are torn down together (failing / interrupted / cancelled scope) while the same
    supply is changed, borrowed from and probed in the same time step; world: one supply of 3"""
    def holder():
        body = [rng.choice([{'op': 'instant'}, {'op': 'sleep', 'd': 1}, {'op': 'await_f', 'f': 2, 'v': True},
                            {'op': 'levels', 'p': 1}]) for _ in range(rng.randint(1, 2))]
        return [{'op': rng.choice(['borrow', 'borrow', 'claim']), 'p': 1, 'amt': rng.choice([0, 1, 1, 2])}] + body + [{'op': 'leave'}]

    def filler(n):
        out = []
        for _ in range(n):
            r = rng.random()
            if r < 0.3:
                out.append({'op': 'instant'})
            elif r < 0.45:
                out.append({'op': rng.choice(['inc', 'dec']), 'p': 1, 'amt': rng.choice([1, 2])})
            elif r < 0.6:
                out.append({'op': 'levels', 'p': 1})
            elif r < 0.7:
                out.append({'op': 'fset', 'f': 1, 'v': True})
            elif r < 0.8:
                out.append({'op': 'cancel', 'k': -rng.randint(1, 3)})
            elif r < 0.9:
                out += [{'op': 'claim', 'p': 1, 'amt': rng.choice([1, 2, 3])}, {'op': 'levels', 'p': 1}, {'op': 'leave'}]
            else:
                out.append({'op': 'sleep', 'd': 1})
        return out
    kind = rng.choice(['scope', 'scope', 'until_d', 'until_f'])
    o = {'op': 'open', 'kind': kind, 'catch': True}
    if kind == 'until_d':
        o['d'] = 1
    if kind == 'until_f':
        o['f'] = 1
    kids = [{'op': 'do', 's': -1, 'vol': rng.random() < 0.3, 'd': 0, 'fin': 'none', 'prog': holder()}
            for _ in range(rng.randint(2, 3))]
    end = rng.choice([[{'op': 'raise', 'cls': 'Key'}], [{'op': 'raise', 'cls': 'Key'}], [], [{'op': 'sleep', 'd': 1}]])
    root = [o] + kids + filler(rng.randint(1, 3)) + end + [{'op': 'leave'}] + filler(rng.randint(0, 2))
    other = filler(rng.randint(1, 4))
    return {'start': 0, 'roots': [root, other]}


def rendezvous_program(rng):
    """several activities that ask, at different (fractional) times, to be resumed at the SAME absolute decimal date:
    they become runnable for one time step and must run in the order in which they asked"""
    start = rng.choice([0, 0, 0.3, 5, -2.5])
    date = round(start + rng.choice([0.7, 0.9, 1.1, 1.3, 2.3, 3.9]), 6)
    roots = []
    for _ in range(rng.randint(3, 7)):
        ops = []
        if rng.random() < 0.85:
            ops.append({'op': 'sleep', 'd': rng.choice([0.1, 0.2, 0.3, 0.4, 0.5, 0.6])})
        r = rng.random()
        if r < 0.5:
            ops.append({'op': 'await_c', 'c': [rng.choice(['ge', 'eq']), date]})
        elif r < 0.75:
            ops += [{'op': 'open', 'kind': 'until_c', 'catch': True, 'c': [rng.choice(['ge', 'eq']), date]},
                    {'op': 'sleep', 'd': 50}, {'op': 'leave'}]
        else:
            ops += [{'op': 'open', 'kind': 'scope', 'catch': True},
                    {'op': 'do', 's': -1, 'vol': False, 'fin': 'none', 'at_abs': date, 'prog': [{'op': 'instant'}]},
                    {'op': 'leave'}]
        ops.append({'op': 'instant'})
        roots.append(ops)
    return {'start': start, 'roots': roots}


TIME_FIELDS = ('t', 'due', 'at', 'v')


def rankify(trace):
    """replace every date of the trace by its rank; drop durations"""
    dates = set()
    for e in trace:
        for f in TIME_FIELDS:
            if f in e and isinstance(e[f], (int, float)):
                dates.add(float(e[f]))
        c = e.get('c')
        if isinstance(c, list) and len(c) == 2 and isinstance(c[1], (int, float)) and c[0] in ('ge', 'eq', 'lt'):
            dates.add(float(c[1]))
    rank = {d: i for i, d in enumerate(sorted(dates))}
    out = []
    for e in trace:
        e = dict(e)
        if e.get('e') == 'fin':
            out.append(e)
            continue
        for f in TIME_FIELDS:
            if f in e and isinstance(e[f], (int, float)):
                e[f] = rank[float(e[f])]
        c = e.get('c')
        if isinstance(c, list) and len(c) == 2 and isinstance(c[1], (int, float)) and c[0] in ('ge', 'eq', 'lt'):
            e['c'] = [c[0], rank[float(c[1])]]
        e.pop('d', None)
        e.pop('p', None)
        e.pop('msg', None)
        e['rank'] = True
        out.append(e)
    return out


# ---------------------------------------------------------------------------------------------------------------
# random programs over the whole vocabulary of the operational spec (integers only), for trace validation
# against USim itself (harness/usimrun.conformance) and for the property monitors
BIG = dict(NRoots=3, MaxActs=7, MaxScopes=4, RootOps=24, TaskOps=16, Horizon=12, NFlags=2, NLocks=2, NQueues=1, NChans=1,
           NRes=1, MaxPools=6, ResInit=1, MaxLevel=3, TickSel='mixed', CondSel='none',
           Menu={'leave', 'instant', 'sleep', 'fset', 'await_f', 'enter', 'avail', 'status', 'open', 'nocatch', 'until_d',
                 'until_f', 'do', 'do_after', 'do_volatile', 'do_fin', 'do_grace', 'cancel', 'await_t', 'raise', 'raise_priv',
                 'put', 'get', 'qclose', 'cput', 'cget', 'cnext', 'cstop', 'cclose', 'await_time', 'await_s', 'until_time',
                 'borrow', 'claim', 'rchange', 'levels', 'await_lvl', 'lvl_rels', 'lvl_shared', 'tick'})
# the same vocabulary with TWO resource types per supply and until-blocks over connectives of flags
BIG2 = dict(BIG, NT=2, ResInitB=1, CondSel='flat', Menu=BIG['Menu'] | {'until_conn'})
CONNS = [['all', [['flag', 1], ['flag', 2]]], ['any', [['flag', 1], ['flag', 2]]], ['all', [['flag', 1], ['nflag', 2]]]]
TICKS = [{'kind': 'interval', 'p': 2}, {'kind': 'interval', 'p': 0}, {'kind': 'delay', 'p': 0}, {'kind': 'delay', 'p': 2}]


def usim_program(rng, vec=False):
    """a program within the bounds of storm.BIG (vec: storm.BIG2 - amounts and levels have two resource types, until
    blocks may wait for a connective of flags); task / scope references are relative and resolved by the puppet"""
    def amtb():
        return {'amtb': rng.choice([0, 0, 1, 2])} if vec else {}
    budget = {'acts': BIG['MaxActs'] - BIG['NRoots'], 'scopes': BIG['MaxScopes'], 'pools': BIG['MaxPools'] - 1}

    def leafop():
        r = rng.choice(['instant', 'instant', 'sleep', 'fset', 'await_f', 'avail', 'put', 'get', 'cput', 'cnext', 'cget',
                        'cstop', 'qclose', 'cclose', 'levels', 'inc', 'dec', 'await_lvl', 'tick', 'await_c', 'cancel',
                        'await_t', 'status', 'await_s'])
        if r == 'sleep':
            return {'op': 'sleep', 'd': rng.choice([1, 2])}
        if r == 'fset':
            return {'op': 'fset', 'f': rng.choice([1, 2]), 'v': rng.random() < 0.6}
        if r == 'await_f':
            return {'op': 'await_f', 'f': rng.choice([1, 2]), 'v': rng.random() < 0.7}
        if r == 'avail':
            return {'op': 'avail', 'l': rng.choice([1, 2])}
        if r in ('put', 'get', 'qclose'):
            return {'op': r, 'q': 1}
        if r in ('cput', 'cnext', 'cget', 'cstop', 'cclose'):
            return {'op': r, 'c': 1}
        if r == 'levels':
            return {'op': 'levels', 'p': 1}
        if r in ('inc', 'dec'):
            if vec and rng.random() < 0.25:
                mask = rng.choice([1, 2, 3])     # set() names only some of the types
                return {'op': 'rset', 'p': 1, 'amt': rng.choice([0, 1, 2]) if mask != 2 else 0,
                        'amtb': rng.choice([0, 1, 2]) if mask != 1 else 0, 'mask': mask}
            return dict({'op': r, 'p': 1, 'amt': rng.choice([0, 1, 2])}, **amtb())
        if r == 'await_lvl':
            return dict({'op': 'await_lvl', 'p': 1, 'v': rng.choice([0, 1, 2]), 'rel': rng.choice(['ge', 'ge', 'le', 'gt', 'lt', 'eq', 'ne']),
                         'shared': rng.random() < 0.5}, **({'vb': rng.choice([0, 0, 1, 2])} if vec else {}))
        if r == 'tick':
            i = rng.randint(1, 4)
            return dict(op='tick', i=i, **TICKS[i - 1])
        if r == 'await_c':
            return {'op': 'await_c', 'c': [rng.choice(['ge', 'eq', 'lt']), rng.randint(0, 5)]}
        if r in ('cancel', 'await_t', 'status'):
            return {'op': r, 'k': -rng.randint(1, 3)}           # the n-th most recently spawned task
        if r == 'await_s':
            return {'op': 'await_s', 's': -rng.randint(1, 2)}   # the n-th most recently opened scope
        return {'op': 'instant'}

    def ops(n, lvl, is_task):
        out = []
        left = n
        while left > 0:
            left -= 1
            r = rng.random()
            if r < 0.55 or lvl >= 2:
                out.append(leafop())
            elif r < 0.62:
                out.append({'op': 'raise', 'cls': rng.choice(['Key', 'Index', 'Key', 'Assert'])})
            elif r < 0.72:
                inner = ops(rng.randint(0, 2), lvl + 1, is_task)
                out += [{'op': 'enter', 'l': rng.choice([1, 2])}] + inner + [{'op': 'leave'}]
                left -= len(inner) + 1
            elif r < 0.8 and budget['pools'] > 0:
                budget['pools'] -= 1
                inner = ops(rng.randint(0, 2), lvl + 1, is_task)
                out += [dict({'op': rng.choice(['borrow', 'borrow', 'claim']), 'p': 1, 'amt': rng.choice([0, 1, 1, 2])}, **amtb())] \
                    + inner + [{'op': 'leave'}]
                left -= len(inner) + 1
            elif budget['scopes'] > 0:
                budget['scopes'] -= 1
                kind = rng.choice(['scope', 'scope', 'until_d', 'until_f', 'until_c'])
                o = {'op': 'open', 'kind': kind, 'catch': rng.random() < 0.8 or kind != 'scope'}
                if kind == 'until_d':
                    o['d'] = rng.choice([1, 2])
                if kind == 'until_f':
                    o['f'] = rng.choice([1, 2])
                if kind == 'until_c':
                    o['c'] = [rng.choice(['ge', 'eq']), rng.randint(0, 5)]
                    if vec and rng.random() < 0.5:
                        o['c'] = rng.choice(CONNS)
                body = []
                for _ in range(rng.randint(0, 2)):
                    if budget['acts'] > 0:
                        budget['acts'] -= 1
                        body.append({'op': 'do', 's': -1, 'vol': rng.random() < 0.25, 'd': rng.choice([0, 0, 1]),
                                     'fin': rng.choice(['none', 'none', 'none', 'raise', 'spawn', 'grace']),
                                     'prog': ops(rng.randint(0, 4), 1, True)})
                body += ops(rng.randint(0, 2), lvl + 1, is_task)
                out += [o] + body + [{'op': 'leave'}]
                left -= len(body) + 1
        return out[:n + 4]
    return {'start': 0, 'roots': [ops(rng.randint(1, 6), 0, False) for _ in range(BIG['NRoots'])]}


# ---------------------------------------------------------------------------------------------------------------
# many waiters on ONE notification, some of which leave before they are served
def waiters_program(rng, kind=None):
    """3..6 tasks queue up for one lock / one queue / one flag while the root holds it back; some give up on their own
    (an until-block around the wait that expires) or are cancelled by the root, in any position of the waiting list;
    then the root serves the rest.  The order in which the remaining waiters are served is what the monitors judge
    (ObsC09 grant_order, ObsC10 receiver_order): whoever leaves must not disturb the order of those who stay."""
    kind = kind or rng.choice(['lock', 'queue'])
    n = rng.randint(3, 6)
    root = [{'op': 'open', 'kind': 'scope', 'catch': True}]
    if kind == 'lock':
        root.append({'op': 'enter', 'l': 1})
    for _ in range(n):
        if kind == 'lock':
            body = [{'op': 'enter', 'l': 1}] + [{'op': 'instant'}] * rng.randint(0, 1) + [{'op': 'leave'}]
        else:
            body = [{'op': 'get', 'q': 1}]
        if rng.random() < 0.3:          # this waiter gives up by itself after one time unit
            body = [{'op': 'open', 'kind': 'until_d', 'catch': True, 'd': 1}] + body + [{'op': 'leave'}]
        root.append({'op': 'do', 's': -1, 'vol': rng.random() < 0.15, 'd': 0, 'fin': 'none', 'prog': body})
        if rng.random() < 0.2:
            root.append({'op': 'instant'})
    root.append({'op': 'instant'})       # everybody has asked by now
    for j in rng.sample(range(1, n + 1), rng.randint(0, 2)):
        root.append({'op': 'cancel', 'k': -j})
    if rng.random() < 0.5:
        root.append({'op': 'sleep', 'd': rng.choice([1, 2])})       # the impatient ones have left by now
    if kind == 'lock':
        root.append({'op': 'leave'})     # give the lock up: it is handed from waiter to waiter
    else:
        for _ in range(n):
            root.append({'op': 'put', 'q': 1})
            if rng.random() < 0.3:
                root.append({'op': 'cancel', 'k': -rng.randint(1, n)})
    root.append({'op': 'leave'})
    return {'start': 0, 'roots': [root]}


# ---------------------------------------------------------------------------------------------------------------
# tear-down storms: children blocked in every kind of wait are cancelled / closed / left behind, then inspected
def teardown_program(rng):
    """a scope full of children that hold or wait for a lock (nested up to depth 3), a supply, a level comparison, a
    queue, a delayed start, a sleep; the scope is then left normally (volatile children are closed), aborted by an
    exception in its body or by a failing child (everybody is closed), or it is an until-block that expires; single
    children are cancelled before; afterwards the root lets time pass (stale wake-ups would fire now) and inspects
    what is left: task outcomes (awaited twice), the lock, the level of the supply, the queue.
    World: storm.BIG (1 supply of 1.. , 2 locks, 1 queue, 2 flags)."""
    n = rng.randint(2, 5)

    def hold():
        return rng.choice([[{'op': 'await_f', 'f': 1, 'v': True}], [{'op': 'sleep', 'd': rng.choice([1, 2, 3])}],
                           [{'op': 'instant'}], [{'op': 'instant'}, {'op': 'sleep', 'd': 1}]])

    def worker():
        kind = rng.choice(['lock', 'lock', 'borrow', 'lvl', 'get', 'sleep', 'nested', 'tick'])
        if kind == 'lock':
            depth = rng.choice([1, 1, 2, 3])
            return [{'op': 'enter', 'l': 1}] * depth + hold() + [{'op': 'leave'}] * depth
        if kind == 'borrow':
            return [{'op': rng.choice(['borrow', 'borrow', 'claim']), 'p': 1, 'amt': rng.choice([0, 1, 1])}] + hold() + [{'op': 'leave'}]
        if kind == 'lvl':
            return [{'op': 'await_lvl', 'p': 1, 'v': rng.choice([1, 1, 2]), 'rel': rng.choice(['ge', 'ge', 'gt', 'eq']),
                     'shared': False}, {'op': 'levels', 'p': 1}]
        if kind == 'get':
            return [{'op': 'get', 'q': 1}]
        if kind == 'nested':
            return [{'op': 'open', 'kind': 'scope', 'catch': rng.random() < 0.7},
                    {'op': 'do', 's': -1, 'vol': False, 'd': 0, 'fin': 'none', 'prog': hold()}] + hold() + [{'op': 'leave'}]
        if kind == 'tick':
            i = rng.randint(1, 4)
            return [dict(op='tick', i=i, **TICKS[i - 1])] * rng.randint(1, 2)
        return [{'op': 'sleep', 'd': rng.choice([1, 2, 3])}]
    how = rng.choice(['leave', 'leave', 'raise', 'childfail', 'until'])
    # (an outer block: if the inner one is aborted, its `leave` is consumed by the outer one and the inspection still runs)
    root = [{'op': 'open', 'kind': 'scope', 'catch': True},
            {'op': 'open', 'kind': 'until_d', 'd': rng.choice([1, 2]), 'catch': True} if how == 'until'
            else {'op': 'open', 'kind': 'scope', 'catch': True}]
    for _ in range(n):
        root.append({'op': 'do', 's': -1, 'vol': rng.random() < 0.4, 'd': rng.choice([0, 0, 0, 1, 2]),
                     'fin': rng.choice(['none', 'none', 'none', 'grace']), 'prog': worker()})
    if how == 'childfail':
        root.append({'op': 'do', 's': -1, 'vol': False, 'd': rng.choice([0, 1]), 'fin': 'none',
                     'prog': [{'op': 'instant'}] * rng.randint(0, 2) + [{'op': 'raise', 'cls': 'Key'}]})
    for _ in range(rng.randint(0, 3)):
        r = rng.random()
        if r < 0.3:
            root.append({'op': 'instant'})
        elif r < 0.5:
            root.append({'op': 'sleep', 'd': 1})
        elif r < 0.75:
            k = -rng.randint(1, n)
            root.append({'op': 'cancel', 'k': k})
            if rng.random() < 0.5:
                root.append({'op': 'status', 'k': k})
        elif r < 0.85:
            root.append({'op': 'put', 'q': 1})
        else:
            root.append({'op': 'fset', 'f': 1, 'v': True})
    if how == 'raise':
        root.append({'op': 'raise', 'cls': 'Index'})       # (aborts the block: no `leave` of its own)
    else:
        if how == 'until':
            root.append({'op': 'sleep', 'd': 3})
        root.append({'op': 'leave'})
    # post mortem
    root.append({'op': 'sleep', 'd': 4})
    for j in range(1, n + 1):
        root += [{'op': 'status', 'k': -j}, {'op': 'await_t', 'k': -j}, {'op': 'await_t', 'k': -j}]
    root += [{'op': 'avail', 'l': 1}, {'op': 'enter', 'l': 1}, {'op': 'leave'}, {'op': 'levels', 'p': 1},
             {'op': 'claim', 'p': 1, 'amt': 1}, {'op': 'leave'}, {'op': 'put', 'q': 1}, {'op': 'get', 'q': 1}, {'op': 'leave'}]
    roots = [root]
    if rng.random() < 0.5:       # a bystander that uses the same lock / supply / level meanwhile
        roots.append(rng.choice([[{'op': 'sleep', 'd': 1}, {'op': 'enter', 'l': 1}, {'op': 'instant'}, {'op': 'leave'}],
                                 [{'op': 'await_lvl', 'p': 1, 'v': 1, 'rel': 'ge', 'shared': False}, {'op': 'levels', 'p': 1}],
                                 [{'op': 'sleep', 'd': 2}, {'op': 'borrow', 'p': 1, 'amt': 1}, {'op': 'leave'}]]))
    return {'start': 0, 'roots': roots}
