"""C19: run one history of resource operations on the real usim.py classes and snapshot the resource."""
import sys

sys.unraisablehook = lambda *a: None


class Item:
    """stored objects are DISTINCT but compare EQUAL (like equal tuples or records with different identity): a store
    must hand out the object that was matched, not one that merely equals it"""
    __slots__ = ('id',)

    def __init__(self, ident):
        self.id = ident

    def __eq__(self, other):
        return isinstance(other, Item)

    def __hash__(self):
        return 7

    def __repr__(self):
        return 'Item(%d)' % self.id


def run_history(sc):
    from usim.py import Environment, Interrupt
    from usim.py.resources.container import Container
    from usim.py.resources.store import Store, PriorityStore, FilterStore, PriorityItem
    from usim.py.resources.resource import Resource, PriorityResource, PreemptiveResource, Preempted
    kind, cap, init, hist = sc['kind'], sc['cap'], sc['init'], sc['hist']
    pair = sc.get('pair', 0)

    def time_of(i):
        return i - 2 if pair > 0 and i > pair else i - 1
    env = Environment()
    res = {'Container': lambda: Container(env, capacity=cap, init=init), 'Store': lambda: Store(env, capacity=cap),
           'PriorityStore': lambda: PriorityStore(env, capacity=cap), 'FilterStore': lambda: FilterStore(env, capacity=cap),
           'Resource': lambda: Resource(env, capacity=cap), 'PriorityResource': lambda: PriorityResource(env, capacity=cap),
           'PreemptiveResource': lambda: PreemptiveResource(env, capacity=cap)}[kind]()
    reqs, procs, evicted, trace = {}, {}, [], [{'e': 'sc', 'kind': kind, 'cap': cap, 'init': init, 'hist': hist, 'pair': pair}]
    filters = {0: lambda item: True, 1: lambda item: item.id % 2 == 1, 2: lambda item: item.id % 2 == 0, 3: lambda item: False}

    def item_id(x):
        return x.item if isinstance(x, PriorityItem) else x.id

    def op_proc(i, o):
        yield env.timeout(time_of(i))
        op = o['op']
        try:
            if op == 'put':
                if kind == 'Container':
                    reqs[i] = res.put(o['a'])
                elif kind == 'PriorityStore':
                    reqs[i] = res.put(PriorityItem(o['p'], i))
                else:
                    reqs[i] = res.put(Item(i))
            elif op == 'get':
                if kind == 'Container':
                    reqs[i] = res.get(o['a'])
                elif kind == 'FilterStore':
                    reqs[i] = res.get(filters[o['a']])
                else:
                    reqs[i] = res.get()
            elif op == 'request':
                if kind == 'Resource':
                    reqs[i] = res.request()
                elif kind == 'PriorityResource':
                    reqs[i] = res.request(priority=o['p'])
                else:
                    from usim.py.resources.resource import PriorityRequest
                    reqs[i] = PriorityRequest(res, priority=o['p'], preempt=o['pre'])
            elif op == 'use':
                ctx = res.request() if kind == 'Resource' else res.request(priority=o['p'])
                reqs[i] = ctx
                with ctx as req:
                    yield req
                yield env.event()
            elif op == 'release':
                if o['a'] in reqs and hist[o['a'] - 1]['op'] in ('request', 'use'):
                    reqs[i] = res.release(reqs[o['a']])
            elif op == 'cancel':
                if o['a'] in reqs and hist[o['a'] - 1]['op'] in ('put', 'get', 'request', 'use'):
                    reqs[o['a']].cancel()
            if i in reqs:
                yield reqs[i]
                yield env.event()          # keep using the resource: a preemption interrupts this process
        except Interrupt as intr:
            cause = intr.cause
            if isinstance(cause, Preempted):
                by = [k for k, p in procs.items() if p is cause.by]
                evicted.append({'victim': i, 'by': by[0] if by else 0, 'since': int(cause.usage_since)})
            yield env.event()

    def observer():
        # one snapshot at the end of every time step, labelled with the last operation issued in it
        last = {}
        for i in range(1, len(hist) + 1):
            last[time_of(i)] = i
        for step, t in enumerate(sorted(last)):
            yield env.timeout(0.5 if step == 0 else 1)
            k = last[t]
            granted = sorted(i for i, r in reqs.items() if r.triggered and hist[i - 1]['op'] in ('put', 'get', 'request', 'release', 'use'))
            got = []
            if kind in ('Store', 'PriorityStore', 'FilterStore'):
                done = [(i, r) for i, r in reqs.items() if hist[i - 1]['op'] == 'get' and r.triggered]
                got = [{'req': i, 'item': item_id(r.value)} for i, r in done]
            snap = {'e': 'snap', 'i': k,
                    'level': int(res.level) if kind == 'Container' else init,
                    'items': [item_id(x) for x in res.items] if hasattr(res, 'items') else [],
                    'users': sorted(i for i, r in reqs.items() if any(r is u for u in getattr(res, 'users', []))),
                    'granted': granted, 'got': got, 'evicted': list(evicted),
                    'nput': len(res.put_queue), 'nget': len(res.get_queue)}
            trace.append(snap)

    for i, o in enumerate(hist):
        procs[i + 1] = env.process(op_proc(i + 1, o))
    env.process(observer())
    try:
        env.run(until=len(hist) + 1)
    except BaseException as err:
        trace.append({'e': 'err', 'cls': type(err).__name__, 'msg': str(err)[:100]})
    # the order in which gets were served = order of delivery
    for snap in trace:
        if snap.get('e') == 'snap':
            snap['got'] = sorted(snap['got'], key=lambda g: g['req'])
    return trace
