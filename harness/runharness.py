"""C15: sequences of (nested) simulations on one or several real threads, recorded in one lock-ordered trace."""
import sys
import threading

import usim
from usim import time
from usim._core.loop import ActivityLeak

sys.unraisablehook = lambda *a: None


RETURNS = [7, 0, '', False, (), 0.0, 'x', [], {}, b'']


class RootErr(KeyError):
    pass


class Experiment:
    def __init__(self, scripts, overlap=False):
        self.scripts = scripts          # thread -> list of run specs
        self.lock = threading.Lock()
        self.trace = []
        self.nrun = 0
        self.barrier = threading.Barrier(len(scripts)) if overlap and len(scripts) > 1 else None

    def rec(self, e, **kw):
        with self.lock:
            self.trace.append(dict(e=e, **kw))

    def new_run(self):
        with self.lock:
            self.nrun += 1
            return self.nrun

    def outside(self, th):
        try:
            time.now
            raised = False
        except RuntimeError:
            raised = True
        self.rec('outside', th=th, raised=raised)

    def meet(self):
        """block this OS thread inside a running simulation until the other threads are inside theirs"""
        if self.barrier is not None:
            try:
                self.barrier.wait(timeout=5)
            except threading.BrokenBarrierError:
                pass

    def simulate(self, th, spec, sync=False):
        rid = self.new_run()
        roots = [self.root(th, rid, i + 1, r, spec['start'], sync and i == 0) for i, r in enumerate(spec['roots'])]
        till = spec.get('till')
        self.rec('enter', th=th, run=rid, start=spec['start'], roots=spec['roots'], hastill=till is not None,
                 till=till if till is not None else 0)
        kw = {} if till is None else {'till': till}
        out = {'out': 'ok', 'id': 0}
        err = None
        try:
            usim.run(*roots, start=spec['start'], **kw)
        except RootErr as e:
            out = {'out': 'exc', 'id': e.args[0]}
            err = e
        except ActivityLeak as e:
            out = {'out': 'leak', 'id': 0}
            err = e
        except BaseException as e:
            out = {'out': 'other', 'id': 0, 'cls': type(e).__name__}
            err = e
        finally:
            for c in roots:
                try:
                    c.close()
                except BaseException:
                    pass
        self.rec('exit', th=th, run=rid, **out)
        return err

    def probe(self, th, rid, expect):
        try:
            v, raised = time.now, False
        except RuntimeError:
            v, raised = -1, True
        self.rec('probe', th=th, run=rid, v=v, expect=expect, raised=raised)

    async def root(self, th, rid, idx, r, start, sync):
        self.rec('first', th=th, run=rid, root=idx, t=time.now)
        if sync:
            self.meet()
        if r['d']:
            await (time + r['d'])
        self.probe(th, rid, start + r['d'])
        kind = r['kind']
        if kind in ('nested_ok', 'nested_raise'):
            inner = {'start': 7, 'roots': [{'kind': 'ok' if kind == 'nested_ok' else 'raise', 'd': 1}]}
            self.simulate(th, inner)         # a failing inner run is caught here: the outer one must carry on
            self.probe(th, rid, start + r['d'])
            await (time + 1)
            self.probe(th, rid, start + r['d'] + 1)
        if kind == 'forever':          # only in runs that are ended by `till`
            k = 0
            while True:
                await (time + 1)
                k += 1
                self.rec('tick', th=th, run=rid, root=idx, t=time.now, expect=start + r['d'] + k)
        if kind == 'cleanup':         # an activity whose clean-up awaits (it must be left alone when the run is aborted)
            try:
                await (time + 9)
            finally:
                await (time + 1)
        if kind == 'raise':
            self.rec('root_end', th=th, run=rid, root=idx, how='raise')
            raise RootErr(100 * rid + idx)
        self.rec('root_end', th=th, run=rid, root=idx, how=kind)
        if kind == 'ret':
            # any value other than None is an unreceived result - also the falsy ones
            return RETURNS[(rid + idx) % len(RETURNS)]

    def thread_main(self, th):
        self.outside(th)
        for n, spec in enumerate(self.scripts[th - 1]):
            self.simulate(th, spec, sync=(n == 0))
            self.outside(th)

    def run(self, threaded):
        if not threaded:
            for th in range(1, len(self.scripts) + 1):
                self.thread_main(th)
        else:
            ts = [threading.Thread(target=self.thread_main, args=(th,)) for th in range(1, len(self.scripts) + 1)]
            for t in ts:
                t.start()
            for t in ts:
                t.join()
        return self.trace


KINDS = ['ok', 'ok', 'raise', 'ret', 'nested_ok', 'nested_raise', 'cleanup']


def till_spec(rng):
    """a run that only `till` (an absolute date) ends: endless roots next to finite ones, any start time"""
    start = rng.choice([0, 3, -4, 10])
    return {'start': start, 'till': start + rng.choice([1, 2, 3, 5]),
            'roots': [{'kind': rng.choice(['forever', 'forever', 'ok']), 'd': rng.choice([0, 1, 2, 4])}
                      for _ in range(rng.randint(1, 3))]}


def random_script(rng, nruns=None):
    out = []
    for _ in range(nruns or rng.randint(1, 3)):
        if rng.random() < 0.25:
            out.append(till_spec(rng))
            continue
        out.append({'start': rng.choice([0, 3]),
                    'roots': [{'kind': rng.choice(KINDS), 'd': rng.choice([0, 1, 2])} for _ in range(rng.randint(1, 3))]})
    return out
