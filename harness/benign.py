"""Negative controls: apply a behaviour-preserving patch in a scratch worktree and run a list of quick checks on it;
every check must exit 0.  usage: benign.py <patch> <Cnn> [<Cnn> ...]"""
import os
import shutil
import subprocess
import sys
import tempfile

HERE = os.path.dirname(os.path.dirname(os.path.abspath(__file__)))


def main():
    patch, props = os.path.abspath(sys.argv[1]), sys.argv[2:]
    wt = tempfile.mkdtemp(prefix='usim-ben-')
    os.rmdir(wt)
    subprocess.run(['git', '-C', '/repo', 'worktree', 'add', '--detach', wt, 'HEAD'], check=True, stdout=subprocess.DEVNULL,
                   stderr=subprocess.DEVNULL)
    out = tempfile.mkdtemp(prefix='usim-benout-')
    try:
        subprocess.run(['git', '-C', wt, 'apply', patch], check=True)
        suite = subprocess.run(['/venv/bin/python', '-m', 'pytest', '-q', '-p', 'no:cacheprovider', '--timeout=900'], cwd=wt,
                               stdout=subprocess.PIPE, stderr=subprocess.STDOUT, text=True).stdout.strip().splitlines()[-1]
        print('%s suite: %s' % (patch, suite), flush=True)
        for p in props:
            r = subprocess.run([os.path.join(HERE, 'bin', 'check'), p, '--tier', 'quick'], cwd=HERE,
                               env=dict(os.environ, VERIF_REPO=wt, VERIF_OUT=out), stdout=subprocess.PIPE,
                               stderr=subprocess.STDOUT, text=True)
            lines = r.stdout.strip().splitlines()
            clauses = sorted({w.split('=')[1] for l in lines if l.startswith('VIOLATION') for w in l.split() if w.startswith('clause=')})
            print('%s %s rc=%d %s | %s' % (patch, p, r.returncode, 'quiet' if r.returncode == 0 else 'ALARM ' + ','.join(clauses),
                                           lines[-1][:160] if lines else ''), flush=True)
    finally:
        subprocess.run(['git', '-C', '/repo', 'worktree', 'remove', '--force', wt], stdout=subprocess.DEVNULL, stderr=subprocess.DEVNULL)
        shutil.rmtree(out, ignore_errors=True)


if __name__ == '__main__':
    main()
