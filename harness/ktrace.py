"""
Kernel-level tracing without source changes: call-through wrappers on Loop.__init__, Loop.schedule,
Loop._run_coroutine and Interrupt.revoke record, per Loop, every scheduling decision of the real kernel.
Usable as a pytest plugin (`-p ktrace` with /verif/harness on PYTHONPATH; traces are written to
$VERIF_KTRACE_OUT at the end of the session) and directly from the harness (install(); collect()).

Events (integers only; dates are replaced by their rank within the loop's trace):
  s  tgt sig at     an activation of coroutine `tgt` with signal `sig` (0 = first send) was queued for date `at`
  rv sig            signal `sig` was revoked
  a  tgt sig t      the loop resumed `tgt` with `sig` at date `t`
"""
import json
import os

LOOPS = []
_installed = False


class _Rec:
    def __init__(self):
        self.events = []
        self.ids = {}

    def oid(self, obj):
        if obj is None:
            return 0
        key = id(obj)
        if key not in self.ids:
            self.ids[key] = len(self.ids) + 1
            self.events.append(('keep', obj))       # keep the object alive so that ids stay unique
        return self.ids[key]


def install():
    global _installed
    if _installed:
        return
    _installed = True
    from usim._core import loop as L
    recs = {}

    def rec_of(lp):
        r = recs.get(id(lp))
        if r is None:
            r = recs[id(lp)] = _Rec()
            r.loop = lp
            LOOPS.append(r)
        return r

    orig_init = L.Loop.__init__

    def __init__(self, *coroutines, start=0):
        orig_init(self, *coroutines, start=start)
        r = rec_of(self)
        for c in coroutines:
            r.events.append({'e': 's', 'tgt': r.oid(c), 'sig': 0, 'at': start})
    L.Loop.__init__ = __init__

    orig_schedule = L.Loop.schedule

    def schedule(self, target, signal=None, *, delay=None, at=None):
        r = rec_of(self)
        when = self.time if (delay is None and at is None) else (self.time + delay if delay is not None else at)
        orig_schedule(self, target, signal, delay=delay, at=at)
        r.events.append({'e': 's', 'tgt': r.oid(target), 'sig': r.oid(signal), 'at': when})
    L.Loop.schedule = schedule

    orig_run = L.Loop._run_coroutine

    def _run_coroutine(self, target, signal=None):
        r = rec_of(self)
        r.events.append({'e': 'a', 'tgt': r.oid(target), 'sig': r.oid(signal), 't': self.time})
        return orig_run(self, target, signal)
    L.Loop._run_coroutine = _run_coroutine

    orig_revoke = L.Interrupt.revoke

    def revoke(self):
        for r in LOOPS[-3:]:        # the signal belongs to one of the most recent loops (nested runs)
            if id(self) in r.ids:
                r.events.append({'e': 'rv', 'sig': r.ids[id(self)]})
        return orig_revoke(self)
    L.Interrupt.revoke = revoke


def collect(clear=True, maxlen=4000):
    """rank-mapped traces of all loops seen so far"""
    out = []
    for r in LOOPS:
        evs = [e for e in r.events if isinstance(e, dict)]
        if not evs or len(evs) > maxlen:
            continue
        dates = sorted({float(e[k]) for e in evs for k in ('at', 't') if k in e})
        rank = {d: i for i, d in enumerate(dates)}
        tr = []
        for e in evs:
            e = dict(e)
            for k in ('at', 't'):
                if k in e:
                    e[k] = rank[float(e[k])]
            tr.append(e)
        out.append(tr)
    if clear:
        LOOPS.clear()
    return out


# ---- pytest plugin interface
def pytest_configure(config):
    install()


def pytest_sessionfinish(session, exitstatus):
    path = os.environ.get('VERIF_KTRACE_OUT')
    if path:
        with open(path, 'w') as fh:
            json.dump(collect(), fh)
