"""Run checks against a seeded change in a scratch worktree of /repo (never in /repo itself).

usage: mutest.py <patch.diff> <Cnn> [<Cnn> ...] [--tier quick]
prints one line per check: DETECTED / missed, with the violating clauses.
"""
import json
import os
import subprocess
import sys
import tempfile
import shutil

ROOT = os.path.dirname(os.path.dirname(os.path.abspath(__file__)))


def main():
    args = [a for a in sys.argv[1:] if not a.startswith('--')]
    tier = 'quick'
    for a in sys.argv[1:]:
        if a.startswith('--tier='):
            tier = a.split('=')[1]
    patch, props = os.path.abspath(args[0]), args[1:]
    wt = tempfile.mkdtemp(prefix='usim-mut-')
    out = tempfile.mkdtemp(prefix='usim-mutout-')
    os.rmdir(wt)
    try:
        subprocess.run(['git', '-C', '/repo', 'worktree', 'add', '--detach', wt, 'HEAD'], check=True,
                       stdout=subprocess.DEVNULL, stderr=subprocess.DEVNULL)
        # carry over uncommitted changes of /repo's working tree, then the seeded change
        diff = subprocess.run(['git', '-C', '/repo', 'diff', 'HEAD'], stdout=subprocess.PIPE, check=True).stdout
        if diff.strip():
            subprocess.run(['git', '-C', wt, 'apply'], input=diff, check=True)
        r = subprocess.run(['git', '-C', wt, 'apply', patch])
        if r.returncode:
            print('PATCH-DOES-NOT-APPLY %s' % patch)
            return 3
        for prop in props:
            env = dict(os.environ, VERIF_REPO=wt, VERIF_OUT=out)
            p = subprocess.run([os.path.join(ROOT, 'bin', 'check'), prop, '--tier', tier], env=env,
                               stdout=subprocess.PIPE, stderr=subprocess.STDOUT, text=True)
            clauses = sorted(set(l.split('clause=')[1] for l in p.stdout.splitlines() if l.startswith('VIOLATION')))
            last = p.stdout.strip().splitlines()[-1] if p.stdout.strip() else ''
            print('%s %s rc=%d %s %s | %s' % (os.path.relpath(patch, ROOT), prop, p.returncode,
                                              'DETECTED' if p.returncode == 1 else 'missed' if p.returncode == 0 else 'ERROR',
                                              ','.join(clauses), last), flush=True)
            if '--drift' in sys.argv:
                try:
                    ev = json.load(open(os.path.join(out, 'evidence', prop + '.json')))
                    for d in ev['coverage']['drift_samples']:
                        print('  DRIFT', json.dumps(d))
                except Exception as err:
                    print('  (no evidence: %s)' % err)
            if p.returncode == 2:
                print(p.stdout[-1500:])
    finally:
        subprocess.run(['git', '-C', '/repo', 'worktree', 'remove', '--force', wt], stdout=subprocess.DEVNULL,
                       stderr=subprocess.DEVNULL)
        shutil.rmtree(wt, ignore_errors=True)
        shutil.rmtree(out, ignore_errors=True)
    return 0


if __name__ == '__main__':
    sys.exit(main())
