"""Run TLC-generated (or random) programs on the real usim and compare with the model."""
import json
import random

import puppet

puppet.install_livelock_guard()

ALL_INVARIANTS = ['NoFault', 'NoForeignSignal', 'RunLive', 'CascadeShape', 'MutualExclusion',
                  'OwnerConsistent', 'LockFreeWhenUnused', 'Contained', 'NoStepAfterExit', 'DoneStable']


def strip(prog):
    """drop the bookkeeping fields of the model's op_begin events"""
    return [[{k: v for k, v in op.items() if k not in ('e', 'a', 't') and not (op['e'] == 'p' and k == 'v')}
             for op in ops] for ops in prog]


def replay(check, witnesses, consts, limit=None, rng=None):
    """execute witness programs on the real code; returns list of (program, trace)"""
    ws = witnesses
    if limit is not None and len(ws) > limit:
        rng = rng or random.Random(check.seed)
        ws = rng.sample(ws, limit)
    out = []
    progs = [strip(w['prog']) for w in ws]
    WORLD.clear()
    WORLD.update(world_args(consts))
    results = run_many(progs, consts['NRoots'])
    WORLD.clear()
    for w, prog, (log, outcome) in zip(ws, progs, results):
        check.programs += 1
        if 'exp' in w:
            real = [{k: v for k, v in e.items() if k not in ('due', 'never', 'late', 'neg')} for e in log if e['e'] not in ('fin', 'init')]
            if w.get('term', True):
                differs = real != w['exp'] or (outcome['k'] == 'ok') != (w.get('fault', '') == '')
            else:       # witness of an intermediate state: the model's events are a prefix
                differs = real[:len(w['exp'])] != w['exp']
            if differs:
                check.drift += 1
                if len(check.drift_samples) < 3:
                    n = next((i for i, (x, y) in enumerate(zip(real, w['exp'])) if x != y),
                             min(len(real), len(w['exp'])))
                    check.drift_samples.append({'program': prog, 'first_difference_at': n,
                                                'real': real[n:n + 2], 'model': w['exp'][n:n + 2],
                                                'outcome': outcome, 'model_fault': w.get('fault')})
        out.append((prog, log))
    return out


WORLD = {}     # world parameters of the configuration being replayed (resources)


def world_args(consts):
    return dict(nres=max(consts.get('NRes', 0), 1), resinit=consts.get('ResInit', 2),
                reskind=consts.get('_reskind', 'res'), horizon=consts.get('Horizon', float('inf')),
                nt=consts.get('NT', 1), resinitb=consts.get('ResInitB', 0))


def _run_one(args):
    prog, nroots, start, kw = args
    return puppet.run_program(prog, nroots=nroots or len(prog), start=start, **kw)


# generic form of the runner used by the property modules
def explore(check, obs, configs, limit=None, invariants=('NoFault', 'NoForeignSignal', 'RunLive', 'CascadeShape'), random=False):
    if limit is None:
        limit = 12000 if check.tier == 'quick' else 250000
    runs = []
    from concurrent.futures import ThreadPoolExecutor

    def lim(consts):        # configurations whose interesting states are rare name their own witness limit (`_full`)
        return max(limit, consts.get('_full', 0))

    def gen(item):
        label, consts = item
        return label, consts, check.witnesses(label, consts, emit='EmitOps', invariants=list(invariants) + (['NoStuck'] if check.tier == 'thorough' else []),
                                              coverage=check.tier == 'thorough', limit=lim(consts))
    with ThreadPoolExecutor(3) as ex:          # the TLC runs of the configurations overlap
        generated = list(ex.map(gen, configs))
    for label, consts, ws in generated:
        batch = [(p, t, consts['NRoots']) for p, t in replay(check, ws, consts, limit=lim(consts))]
        if obs is not None:
            judge(check, obs, batch)        # verdict per configuration; the batch is dropped (memory of the thorough tier)
        else:
            runs += batch
    if random:
        if obs is not None:
            judge(check, obs, random_runs(check))
            judge(check, obs, teardown_runs(check))
        else:
            runs += random_runs(check)
            runs += teardown_runs(check)
    return runs


def judge(check, obs, runs):
    """TLC validates the recorded traces against the property monitor: the verdict"""
    for idx, clause, pos in check.validate(obs, [r[1] for r in runs]):
        check.report(clause, runs[idx][0], runs[idx][1], pos, extra=run_extra(runs[idx]))
    check.samples = [{'program': r[0], 'trace': r[1][:14]} for r in runs[:: max(1, len(runs) // 3)][:3]]


def run_extra(run):
    """what a replay needs besides the program: number of roots and, for random programs, the world"""
    return {'NRoots': run[2], 'world': run[3]} if len(run) > 3 else {'NRoots': run[2]}


def random_runs(check, n=None, conform=False):
    """random programs over the WHOLE vocabulary of the operational spec (storm.usim_program, bounds storm.BIG, and
    storm.BIG2: two resource types per supply, until over connectives), executed on the real code; optionally TLC
    checks that every recorded trace is a behaviour of USim (USimT)"""
    import random
    import storm
    if n is None:
        n = 3000 if check.tier == 'quick' else 40000
    out = []
    for label, bounds, vec, m in (('big', storm.BIG, False, n), ('big2', storm.BIG2, True, max(1, n // 3))):
        progs = [storm.usim_program(random.Random('%s%d/%d' % ('' if not vec else 'v', check.seed, i)), vec=vec)['roots']
                 for i in range(m)]
        world = world_args(bounds)
        WORLD.clear()
        WORLD.update(world)
        try:
            traces = [r[0] for r in run_many(progs, bounds['NRoots'])]
        finally:
            WORLD.clear()
        info = {'programs': m, 'bounds': {k: (sorted(v) if isinstance(v, (set, frozenset)) else v) for k, v in bounds.items()}}
        if conform:
            part = traces[:4000]
            acc = conformance(check, label, bounds, part)
            if acc is not None:
                info['traces_checked_against_operational_spec'] = len(part)
                info['accepted_as_behaviour_of_USim'] = len(acc)
                info['not_explained'] = [progs[i] for i in range(len(part)) if i not in acc][:5]
                check.drift += len(part) - len(acc)
        check.extra['random_programs' if not vec else 'random_programs_two_resource_types'] = info
        check.programs += m
        out += [(p, t, bounds['NRoots'], world) for p, t in zip(progs, traces)]
    return out


def waiter_runs(check, kind, n=None):
    """storm.waiters_program: many waiters on one lock / queue, some leaving from the middle of the waiting list"""
    import random
    import storm
    if n is None:
        n = 2000 if check.tier == 'quick' else 30000
    progs = [storm.waiters_program(random.Random('w%s/%d/%d' % (kind, check.seed, i)), kind)['roots'] for i in range(n)]
    world = world_args(storm.BIG)
    WORLD.clear()
    WORLD.update(world)
    try:
        traces = [r[0] for r in run_many(progs, 1)]
    finally:
        WORLD.clear()
    check.extra['waiter_storm_programs'] = n
    check.programs += n
    return [(p, t, 1, world) for p, t in zip(progs, traces)]


def teardown_runs(check, n=None):
    """storm.teardown_program: children blocked in every kind of wait are cancelled / closed / left behind, then the
    root inspects what is left (task outcomes, lock, supply, queue)"""
    import random
    import storm
    if n is None:
        n = 3000 if check.tier == 'quick' else 40000
    progs = [storm.teardown_program(random.Random('td%d/%d' % (check.seed, i))) for i in range(n)]
    world = world_args(storm.BIG)
    WORLD.clear()
    WORLD.update(world)
    out = []
    try:
        for nr in (1, 2):
            sel = [p['roots'] for p in progs if len(p['roots']) == nr]
            out += [(p, r[0], nr, world) for p, r in zip(sel, run_many(sel, nr))]
    finally:
        WORLD.clear()
    check.extra['teardown_storm'] = n
    check.programs += n
    return out


def run_many(progs, nroots, procs=16, starts=None):
    """execute programs on the real code in worker processes (each simulation is independent)"""
    starts = starts or [0] * len(progs)
    jobs = [(p, nroots, s, dict(WORLD)) for p, s in zip(progs, starts)]
    if len(progs) < 2000:
        return [_run_one(j) for j in jobs]
    import multiprocessing
    ctx = multiprocessing.get_context('fork')
    with ctx.Pool(procs) as pool:
        return pool.map(_run_one, jobs, chunksize=200)


def kernel_traces(check, nstorm):
    """K-level traces (harness/ktrace.py): the repository's own test suite and random programs, in subprocesses"""
    import json
    import os
    import subprocess
    here = os.path.dirname(os.path.abspath(__file__))
    repo = os.environ.get('VERIF_REPO', '/repo')
    env = dict(os.environ, PYTHONPATH=repo + ':' + here, PYTHONDONTWRITEBYTECODE='1')
    traces = []
    out1 = os.path.join(check.tmp, 'ktrace_suite.json')
    p = subprocess.run(['/venv/bin/python', '-m', 'pytest', '-q', '-p', 'no:cacheprovider', '-p', 'ktrace', '--timeout=900',
                        '--deselect', 'usim_pytest/test_core.py'],
                       cwd=repo, env=dict(env, VERIF_KTRACE_OUT=out1), stdout=subprocess.PIPE, stderr=subprocess.STDOUT, text=True)
    suite = []
    if os.path.exists(out1):
        with open(out1) as fh:
            suite = json.load(fh)
    out2 = os.path.join(check.tmp, 'ktrace_storm.json')
    subprocess.run(['/venv/bin/python', '-W', 'ignore', os.path.join(here, 'kworker.py'), out2, str(check.seed), str(nstorm)],
                   env=env, stdout=subprocess.PIPE, stderr=subprocess.STDOUT, text=True)
    storm_tr = []
    if os.path.exists(out2):
        with open(out2) as fh:
            storm_tr = json.load(fh)
    check.extra['kernel_traces'] = {'repository_test_suite_loops': len(suite), 'random_program_loops': len(storm_tr)}
    if not suite or not storm_tr:
        # the recorder wraps Loop.schedule / Loop._run_coroutine / Interrupt.revoke by name: if the kernel is
        # restructured it records nothing, and the kernel-level part of this check is skipped (not failed)
        check.notes.append('kernel-level recorder produced no traces (suite: %d, random: %d loops); kernel part skipped'
                           % (len(suite), len(storm_tr)))
    return [({'source': 'repository test suite under -p ktrace', 'loop': i}, t, 0) for i, t in enumerate(suite)] + \
           [({'source': 'random program under ktrace', 'loop': i}, t, 0) for i, t in enumerate(storm_tr)]


def judge_kernel(check, runs, prefix):
    """ObsK verdicts; only the clauses of this property (C01.* or C02.*) are reported by its check"""
    for idx, clause, pos in check.validate('ObsK', [r[1] for r in runs], label='kernel'):
        if clause.startswith(prefix):
            check.report(clause, runs[idx][0], runs[idx][1], pos, extra={'NRoots': 0})


def conformance(check, label, consts, traces, timeout=3000):
    """TLC validates recorded traces against the OPERATIONAL spec (USimT): returns the set of accepted indices"""
    import json
    import os
    import re
    import tlc
    path = os.path.join(check.tmp, 'conf_%s.json' % label)
    clean = [[{k: v for k, v in e.items() if k not in ('due', 'never', 'late', 'neg')}
              for e in t if e['e'] not in ('init', 'fin')] for t in traces]
    with open(path, 'w') as fh:
        json.dump({'traces': clean}, fh)
    cfg = os.path.join(check.tmp, 'conf_%s.cfg' % label)
    tlc.write_cfg(cfg, 'SpecT', consts, invariants=['Accepted'])
    r = tlc.run_tlc('USimT', cfg, env={'TRACE_FILE': path}, timeout=timeout, workers=16)
    os.unlink(path)
    if r.errors:
        check.notes.append('conformance run %s failed: %s' % (label, r.errors[:2]))
        return None
    accepted = set(int(m.group(1)) - 1 for m in re.finditer(r'<<"A", (\d+)>>', r.out))
    check.tlc_runs.append({'label': 'conformance:' + label, 'module': 'USimT', 'traces': len(traces),
                           'accepted_by_operational_spec': len(accepted), 'distinct': r.distinct,
                           'generated': r.generated, 'wall_s': round(r.wall, 1)})
    check.states += r.distinct
    check.transitions += r.generated
    return accepted
