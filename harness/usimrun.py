"""Run TLC-generated (or random) programs on the real usim and compare with the model."""
import json
import random

import puppet

puppet.install_livelock_guard()

ALL_INVARIANTS = ['NoFault', 'NoForeignSignal', 'RunLive', 'CascadeShape', 'MutualExclusion',
                  'OwnerConsistent', 'LockFreeWhenUnused', 'Contained', 'NoStepAfterExit', 'DoneStable']


def strip(prog):
    """drop the bookkeeping fields of the model's op_begin events"""
    return [[{k: v for k, v in op.items() if k not in ('e', 'a', 't') and not (op['e'] == 'p' and k == 'v')}
             for op in ops] for ops in prog]


def replay(check, witnesses, consts, limit=None, rng=None):
    """execute witness programs on the real code; returns list of (program, trace)"""
    ws = witnesses
    if limit is not None and len(ws) > limit:
        rng = rng or random.Random(check.seed)
        ws = rng.sample(ws, limit)
    out = []
    progs = [strip(w['prog']) for w in ws]
    WORLD.clear()
    WORLD.update(world_args(consts))
    results = run_many(progs, consts['NRoots'])
    WORLD.clear()
    for w, prog, (log, outcome) in zip(ws, progs, results):
        check.programs += 1
        if 'exp' in w:
            real = [{k: v for k, v in e.items() if k not in ('due', 'never', 'late', 'neg')} for e in log if e['e'] not in ('fin', 'init')]
            if w.get('term', True):
                differs = real != w['exp'] or (outcome['k'] == 'ok') != (w.get('fault', '') == '')
            else:       # witness of an intermediate state: the model's events are a prefix
                differs = real[:len(w['exp'])] != w['exp']
            if differs:
                check.drift += 1
                if len(check.drift_samples) < 3:
                    n = next((i for i, (x, y) in enumerate(zip(real, w['exp'])) if x != y),
                             min(len(real), len(w['exp'])))
                    check.drift_samples.append({'program': prog, 'first_difference_at': n,
                                                'real': real[n:n + 2], 'model': w['exp'][n:n + 2],
                                                'outcome': outcome, 'model_fault': w.get('fault')})
        out.append((prog, log))
    return out


WORLD = {}     # world parameters of the configuration being replayed (resources)


def world_args(consts):
    return dict(nres=max(consts.get('NRes', 0), 1), resinit=consts.get('ResInit', 2),
                reskind=consts.get('_reskind', 'res'), horizon=consts.get('Horizon', float('inf')))


def _run_one(args):
    prog, nroots, start, kw = args
    return puppet.run_program(prog, nroots=nroots or len(prog), start=start, **kw)


# generic form of the runner used by the property modules
def explore(check, obs, configs, limit=None, invariants=('NoFault', 'NoForeignSignal', 'RunLive', 'CascadeShape')):
    if limit is None:
        limit = 12000 if check.tier == 'quick' else 250000
    runs = []
    from concurrent.futures import ThreadPoolExecutor

    def gen(item):
        label, consts = item
        return label, consts, check.witnesses(label, consts, emit='EmitOps', invariants=list(invariants),
                                              coverage=check.tier == 'thorough', limit=limit)
    with ThreadPoolExecutor(3) as ex:          # the TLC runs of the configurations overlap
        generated = list(ex.map(gen, configs))
    for label, consts, ws in generated:
        runs += [(p, t, consts['NRoots']) for p, t in replay(check, ws, consts, limit=limit)]
    if obs is not None:
        judge(check, obs, runs)
    return runs


def judge(check, obs, runs):
    """TLC validates the recorded traces against the property monitor: the verdict"""
    for idx, clause, pos in check.validate(obs, [r[1] for r in runs]):
        check.report(clause, runs[idx][0], runs[idx][1], pos, extra={'NRoots': runs[idx][2]})
    check.samples = [{'program': r[0], 'trace': r[1][:14]} for r in runs[:: max(1, len(runs) // 3)][:3]]


def run_many(progs, nroots, procs=16, starts=None):
    """execute programs on the real code in worker processes (each simulation is independent)"""
    starts = starts or [0] * len(progs)
    jobs = [(p, nroots, s, dict(WORLD)) for p, s in zip(progs, starts)]
    if len(progs) < 2000:
        return [_run_one(j) for j in jobs]
    import multiprocessing
    ctx = multiprocessing.get_context('fork')
    with ctx.Pool(procs) as pool:
        return pool.map(_run_one, jobs, chunksize=200)


def kernel_traces(check, nstorm):
    """K-level traces (harness/ktrace.py): the repository's own test suite and random programs, in subprocesses"""
    import json
    import os
    import subprocess
    here = os.path.dirname(os.path.abspath(__file__))
    repo = os.environ.get('VERIF_REPO', '/repo')
    env = dict(os.environ, PYTHONPATH=repo + ':' + here, PYTHONDONTWRITEBYTECODE='1')
    traces = []
    out1 = os.path.join(check.tmp, 'ktrace_suite.json')
    p = subprocess.run(['/venv/bin/python', '-m', 'pytest', '-q', '-p', 'no:cacheprovider', '-p', 'ktrace', '--timeout=900',
                        '--deselect', 'usim_pytest/test_core.py'],
                       cwd=repo, env=dict(env, VERIF_KTRACE_OUT=out1), stdout=subprocess.PIPE, stderr=subprocess.STDOUT, text=True)
    suite = []
    if os.path.exists(out1):
        with open(out1) as fh:
            suite = json.load(fh)
    out2 = os.path.join(check.tmp, 'ktrace_storm.json')
    subprocess.run(['/venv/bin/python', '-W', 'ignore', os.path.join(here, 'kworker.py'), out2, str(check.seed), str(nstorm)],
                   env=env, stdout=subprocess.PIPE, stderr=subprocess.STDOUT, text=True)
    storm_tr = []
    if os.path.exists(out2):
        with open(out2) as fh:
            storm_tr = json.load(fh)
    check.extra['kernel_traces'] = {'repository_test_suite_loops': len(suite), 'random_program_loops': len(storm_tr)}
    return [({'source': 'repository test suite under -p ktrace', 'loop': i}, t, 0) for i, t in enumerate(suite)] + \
           [({'source': 'random program under ktrace', 'loop': i}, t, 0) for i, t in enumerate(storm_tr)]


def judge_kernel(check, runs, prefix):
    """ObsK verdicts; only the clauses of this property (C01.* or C02.*) are reported by its check"""
    for idx, clause, pos in check.validate('ObsK', [r[1] for r in runs], label='kernel'):
        if clause.startswith(prefix):
            check.report(clause, runs[idx][0], runs[idx][1], pos, extra={'NRoots': 0})
