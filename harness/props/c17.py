"""C17 - Concurrent[...] handlers select exactly the documented sets of failures."""
import os
import random

import core
import tlc
import usimrun
from witness import parse_witnesses

OBS = 'ObsC17'
CLS = {'Exception': Exception, 'LookupError': LookupError, 'KeyError': KeyError, 'IndexError': IndexError,
       'ValueError': ValueError,
       # a different class with the SAME __name__ as ValueError (as two modules each defining `Timeout`)
       'TwinError': type('ValueError', (Exception,), {})}
NAME = {c: n for n, c in CLS.items()}


def build(kid):
    from usim import Concurrent
    if kid[0] == 'P':
        return CLS[kid[1]]()
    return Concurrent(*[build(k) for k in kid[1]])


def typ(kid):
    from usim import Concurrent
    if kid[0] == 'P':
        return CLS[kid[1]]
    return Concurrent[tuple(typ(k) for k in kid[1])]


def item(h):
    from usim import Concurrent
    if h[0] == 'P':
        return CLS[h[1]]
    spec = tuple(item(x) for x in h[1]) + ((...,) if h[2] else ())
    return Concurrent[spec]


def leaves(err):
    from usim import Concurrent
    out = []
    for c in err.children:
        if isinstance(c, Concurrent):
            out += leaves(c)
        else:
            out.append(NAME.get(type(c), type(c).__name__))
    return out


def observe(sc):
    """what the real classes answer for one (failure, handler) pair"""
    from usim import Concurrent
    kids, items, incl, bare = sc['kids'], sc.get('items', []), sc.get('incl', False), sc.get('bare', False)
    err = Concurrent(*[build(k) for k in kids])
    try:
        handler = Concurrent if bare else Concurrent[tuple(item(h) for h in items) + ((...,) if incl else ())]
    except Exception:        # the library refuses to build the handler: reported, judged by the monitor
        return {'e': 'm', 'kids': kids, 'items': items, 'incl': incl, 'bare': bare, 'rejected': True,
                'isinst': False, 'issub': False, 'exc': False, 'ident': False, 'flat': []}
    try:
        try:
            raise err
        except handler:
            caught = True
    except BaseException:
        caught = False
    flat = err.flattened()
    return {'e': 'm', 'kids': kids, 'items': items, 'incl': incl, 'bare': bare,
            'isinst': isinstance(err, handler), 'issub': issubclass(type(err), handler), 'exc': caught,
            'ident': type(err) is Concurrent[tuple(typ(k) for k in kids)],
            'flat': [NAME.get(type(c), type(c).__name__) for c in flat.children] if all(not isinstance(c, Concurrent) for c in flat.children)
            else ['<nested>']}


def deep(rng, depth):
    if depth == 0 or rng.random() < 0.4:
        return ['P', rng.choice(['KeyError', 'IndexError', 'ValueError', 'LookupError', 'TwinError'])]
    return ['C', [deep(rng, depth - 1) for _ in range(rng.randint(1, 3))]]


def run(check):
    from usim import Concurrent
    cfg = os.path.join(check.tmp, 'conc.cfg')
    tlc.write_cfg(cfg, 'Spec', {}, invariants=['Permuted', 'Duplicated', 'InclusiveWidens', 'ExactSelf', 'Covariant', 'Emit'])
    r = tlc.run_tlc('Conc', cfg, workers=8)
    if r.errors or r.violated:
        raise core.MachineryError('Conc.tla: %s' % (r.violated or r.errors)[:3])
    scenarios, bad = parse_witnesses(r)
    check.states += r.distinct
    check.transitions += r.generated
    check.tlc_runs.append({'label': 'scenarios', 'module': 'Conc', 'distinct': r.distinct, 'generated': r.generated,
                           'scenarios': len(scenarios), 'unparsable': bad, 'wall_s': round(r.wall, 1),
                           'invariants': ['Permuted', 'Duplicated', 'InclusiveWidens', 'ExactSelf', 'Covariant']})
    rng = random.Random(check.seed)
    traces = [[observe(sc)] for sc in scenarios]
    runs = [(sc, t, 1) for sc, t in zip(scenarios, traces)]
    # bare Concurrent matches everything
    for sc in scenarios[:200]:
        b = {'kids': sc['kids'], 'bare': True}
        runs.append((b, [observe(b)], 1))
    # deep nesting: flattened() keeps the leaves and their order, and its type matches the flat handler
    for _ in range(2000):
        kids = [deep(rng, 3) for _ in range(rng.randint(1, 3))]
        err = Concurrent(*[build(k) for k in kids])
        flat = err.flattened()
        names = [NAME.get(type(c), type(c).__name__) if not isinstance(c, Concurrent) else '<nested>' for c in flat.children]
        want = Concurrent[tuple(set(type(c) for c in flat.children))] if '<nested>' not in names else None
        runs.append(({'kids': kids}, [{'e': 'f', 'kids': kids, 'flat': names,
                                       'flatmatch': want is not None and type(flat) is want}], 1))
    # equal specialisations are the identical class, whatever order / multiplicity
    twin = CLS['TwinError']
    for a, b in [((KeyError, IndexError), (IndexError, KeyError)), ((KeyError, KeyError, ValueError), (ValueError, KeyError)),
                 ((KeyError, ...), (..., KeyError)), ((LookupError,), (LookupError, LookupError)),
                 ((twin, KeyError), (KeyError, twin))]:
        runs.append(({'spec': [str(a), str(b)]}, [{'e': 'id', 'same': Concurrent[a] is Concurrent[b]}], 1))
    # classes that merely share a name give DIFFERENT specialisations
    runs.append(({'spec': ['ValueError', 'its twin']}, [{'e': 'id', 'same': Concurrent[twin] is not Concurrent[ValueError]}], 1))
    check.programs += len(runs)
    usimrun.judge(check, OBS, runs)


def replay(path):
    import json
    import shutil
    with open(path) as fh:
        body = json.load(fh)
    trace = [observe(body['program'])]
    check = core.Check('C17', 'quick', 0)
    rej = check.validate(OBS, [trace], label='replay')
    shutil.rmtree(check.tmp, ignore_errors=True)
    print(json.dumps(trace[0]))
    if rej:
        print('VIOLATION property=C17 replay=%s clause=%s at event %d' % (path, rej[0][1], rej[0][2]))
        return 1
    print('replay of %s: accepted by %s' % (path, OBS))
    return 0
