"""C01 - Virtual time is monotone and every timed wait resumes at exactly its date."""
import usimrun

OBS = 'ObsC01'
B = dict(NLocks=0, NFlags=1, Horizon=3, MaxScopes=1, TaskOps=0)
INV = ('NoFault', 'NoForeignSignal', 'RunLive', 'FutureOnly')
CONFIGS = [
    ('waits', dict(B, NRoots=2, MaxActs=2, RootOps=3, Menu={'instant', 'sleep', 'await_time'})),
    ('until', dict(B, NRoots=2, MaxActs=2, RootOps=3, MaxScopes=2, Horizon=2,
                   Menu={'instant', 'sleep', 'leave', 'until_time', 'await_time'})),
    ('delayed', dict(B, NRoots=1, MaxActs=3, RootOps=4, TaskOps=2, Horizon=3,
                     Menu={'instant', 'sleep', 'open', 'do', 'do_after', 'leave', 'until_d'})),
]


def run(check):
    import random
    import storm
    import puppet
    runs = usimrun.explore(check, None, CONFIGS, invariants=INV, limit=15000 if check.tier == 'quick' else 250000)
    # beyond TLC's bounds: seeded random programs with many activities, float dates, many pending dates,
    # non-zero start times; dates are mapped to ranks, the expected resume date is computed by the harness
    rng = random.Random(check.seed)
    n = 2500 if check.tier == 'quick' else 40000
    progs = [storm.timing_program(rng) for _ in range(n)]
    results = usimrun.run_many([p['roots'] for p in progs], None, starts=[p['start'] for p in progs])
    for p, (log, outcome) in zip(progs, results):
        check.programs += 1
        runs.append((p, storm.rankify(log), len(p['roots'])))
    check.extra['storm_programs'] = n
    usimrun.judge(check, OBS, runs)
    # kernel level: the Loop's own scheduling decisions (repository test suite + random programs) against ObsK
    usimrun.judge_kernel(check, usimrun.kernel_traces(check, 300 if check.tier == 'quick' else 5000), 'C01.')
