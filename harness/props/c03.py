"""C03: scope/task configurations of USim, witnesses replayed on the real code, verdict by ObsC03."""
import scopedom

OBS = 'ObsC03'
LABELS = {'quick': 'abort nested cancel until cancel_close until_time'.split(), 'thorough': 'abort nested cancel until cancel_close until_time'.split()}


def run(check):
    scopedom.run(check, OBS, LABELS[check.tier], conform=True)
