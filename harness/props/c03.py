"""C03: scope/task configurations of USim, witnesses replayed on the real code, verdict by ObsC03."""
import scopedom
import usimrun

OBS = 'ObsC03'
LABELS = {'quick': 'abort nested cancel until until_late cancel_close until_time'.split(),
          'thorough': 'abort nested cancel until until_late cancel_close until_time'.split()}
LIVE = {'quick': ['abort'], 'thorough': ['abort', 'cancel', 'until', 'graceful']}


def kept_ticker_programs():
    """`clock = interval(p)` kept by a long-lived object and iterated by a task that is closed forcefully while it
    pauses (until trigger / volatile child at the end of its scope / failing sibling); the simulation goes on past
    the date of the pause"""
    def tick(kind, p):
        return [{'op': 'tick', 'i': 1, 'kind': kind, 'p': p, 'keep': True}, {'op': 'instant'}]
    progs = []
    for kind in ('delay', 'interval'):
        progs.append([[{'op': 'open', 'kind': 'until_d', 'd': 1, 'catch': True},
                       {'op': 'do', 's': -1, 'vol': False, 'fin': 'none', 'prog': tick(kind, 2)}, {'op': 'leave'},
                       {'op': 'sleep', 'd': 3}]])
        progs.append([[{'op': 'open', 'kind': 'scope', 'catch': True},
                       {'op': 'do', 's': -1, 'vol': True, 'fin': 'none', 'prog': tick(kind, 2)}, {'op': 'sleep', 'd': 1},
                       {'op': 'leave'}, {'op': 'sleep', 'd': 3}]])
        progs.append([[{'op': 'open', 'kind': 'scope', 'catch': True},
                       {'op': 'do', 's': -1, 'vol': False, 'fin': 'none', 'prog': tick(kind, 3)},
                       {'op': 'do', 's': -1, 'vol': False, 'fin': 'none',
                        'prog': [{'op': 'sleep', 'd': 1}, {'op': 'raise', 'cls': 'Key'}]},
                       {'op': 'leave'}, {'op': 'sleep', 'd': 4}]])
    return progs


def run(check):
    # design level, liveness: under weak fairness every behaviour of the bounded kernel model reaches quiescence
    # (no livelock in the design); safety invariants are checked in the witness runs below
    for label in LIVE[check.tier]:
        check.model_check('live_' + label, 'USimProps', 'FairSpec', scopedom.CONFIGS[label], [], properties=['Termination'],
                          coverage=False)
    # design level, beyond the exhaustive bounds: random behaviours of the whole-vocabulary configuration (all
    # primitives in one model: 3 roots, 7 activities, 4 scopes, locks, queue, channel, resources, tickers), every
    # safety invariant evaluated on every state
    import storm
    check.simulate('sim_big', 'USimProps', 'Spec', storm.BIG,
                   ['NoFault', 'NoForeignSignal', 'RunLive', 'CascadeShape', 'MutualExclusion', 'OwnerConsistent',
                    'ShareBounded', 'NoStuck'], num=60 if check.tier == 'quick' else 3000, depth=120)
    # clocks so large that delays are absorbed by float rounding, infinite dates, fractional dates (storm.timing_program)
    import random
    import usimrun
    rng = random.Random(check.seed + 11)
    n = 1500 if check.tier == 'quick' else 20000
    progs = [storm.timing_program(rng) for _ in range(n)]
    results = usimrun.run_many([p['roots'] for p in progs], None, starts=[p['start'] for p in progs])
    more = [(p, storm.rankify(log), len(p['roots'])) for p, (log, outcome) in zip(progs, results)]
    check.programs += n
    check.extra['timing_storm_programs'] = n
    # ticker objects that outlive the activity iterating them, while that activity is closed forcefully in a pause
    kept = kept_ticker_programs()
    more += [(p, log, 1) for p, (log, outcome) in zip(kept, usimrun.run_many(kept, 1))]
    check.programs += len(kept)
    # queue and channel traffic with receivers arriving while a wake-up is in flight (the kernel's own assertions
    # about streams - "report this as a usim bug" - must never fire)
    from props import c10
    from props import c11
    for label, consts in (c10.CONFIGS[0], c11.CONFIGS[0]):
        ws = check.witnesses('streams_' + label, consts, emit='EmitOps', invariants=['NoFault', 'RunLive'], coverage=False, limit=8000)
        more += [(p, t, consts['NRoots']) for p, t in usimrun.replay(check, ws, consts, limit=8000)]
    runs = scopedom.run(check, OBS, LABELS[check.tier], conform=True, more=more)
    # the binding itself is tested: corrupted copies of recorded traces must be rejected by the operational spec
    import selftest
    st = selftest.run(check, 300 if check.tier == 'quick' else 3000)
    if st['rejected_by_USimT'] is not None and st['rejected_by_USimT'] != st['corrupted_traces']:
        check.notes.append('binding self-test: %d of %d corrupted traces were accepted by USimT (%s)'
                           % (st['corrupted_traces'] - st['rejected_by_USimT'], st['corrupted_traces'], st['accepted_kinds']))
