"""C03: scope/task configurations of USim, witnesses replayed on the real code, verdict by ObsC03."""
import scopedom
import usimrun

OBS = 'ObsC03'
LABELS = {'quick': 'abort nested cancel until cancel_close until_time'.split(), 'thorough': 'abort nested cancel until cancel_close until_time'.split()}
LIVE = {'quick': ['abort'], 'thorough': ['abort', 'cancel', 'until', 'graceful']}


def run(check):
    # design level, liveness: under weak fairness every behaviour of the bounded kernel model reaches quiescence
    # (no livelock in the design); safety invariants are checked in the witness runs below
    for label in LIVE[check.tier]:
        check.model_check('live_' + label, 'USimProps', 'FairSpec', scopedom.CONFIGS[label], [], properties=['Termination'],
                          coverage=False)
    # design level, beyond the exhaustive bounds: random behaviours of the whole-vocabulary configuration (all
    # primitives in one model: 3 roots, 7 activities, 4 scopes, locks, queue, channel, resources, tickers), every
    # safety invariant evaluated on every state
    import storm
    check.simulate('sim_big', 'USimProps', 'Spec', storm.BIG,
                   ['NoFault', 'NoForeignSignal', 'RunLive', 'CascadeShape', 'MutualExclusion', 'OwnerConsistent',
                    'ShareBounded', 'NoStuck'], num=60 if check.tier == 'quick' else 3000, depth=120)
    # clocks so large that delays are absorbed by float rounding, infinite dates, fractional dates (storm.timing_program)
    import random
    import usimrun
    rng = random.Random(check.seed + 11)
    n = 1500 if check.tier == 'quick' else 20000
    progs = [storm.timing_program(rng) for _ in range(n)]
    results = usimrun.run_many([p['roots'] for p in progs], None, starts=[p['start'] for p in progs])
    more = [(p, storm.rankify(log), len(p['roots'])) for p, (log, outcome) in zip(progs, results)]
    check.programs += n
    check.extra['timing_storm_programs'] = n
    runs = scopedom.run(check, OBS, LABELS[check.tier], conform=True, more=more)
    # the binding itself is tested: corrupted copies of recorded traces must be rejected by the operational spec
    import selftest
    st = selftest.run(check, 300 if check.tier == 'quick' else 3000)
    if st['rejected_by_USimT'] is not None and st['rejected_by_USimT'] != st['corrupted_traces']:
        check.notes.append('binding self-test: %d of %d corrupted traces were accepted by USimT (%s)'
                           % (st['corrupted_traces'] - st['rejected_by_USimT'], st['corrupted_traces'], st['accepted_kinds']))
