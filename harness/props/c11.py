"""C11 - Channel: broadcast to every subscribed consumer, in order, once."""
import usimrun

OBS = 'ObsC11'
B = dict(NFlags=1, NLocks=0, NChans=1, Horizon=2, MaxScopes=1)
CONFIGS = [
    ('pc', dict(B, NRoots=3, MaxActs=3, RootOps=3, TaskOps=0,
                Menu={'instant', 'cput', 'cget', 'cnext', 'cstop', 'cclose'})),
    ('until', dict(B, NRoots=2, MaxActs=2, RootOps=4, TaskOps=0, MaxScopes=2,
                   Menu={'leave', 'instant', 'until_d', 'cput', 'cget', 'cnext'})),
    ('cancel', dict(B, NRoots=1, MaxActs=3, RootOps=5, TaskOps=2,
                    Menu={'instant', 'open', 'do', 'cancel', 'raise', 'cput', 'cnext', 'cget', 'cclose'})),
]
THOROUGH = CONFIGS + [
    ('until3', dict(B, NRoots=3, MaxActs=3, RootOps=3, TaskOps=0, MaxScopes=2,
                    Menu={'leave', 'instant', 'until_d', 'cput', 'cget', 'cnext', 'cclose'})),
]


REFINE_QUICK = ('pc',)


def refinement(check):
    """design level: USim refines the abstract broadcast channel ChanAbs (TLC: every step of the detailed model is a
    Send / Close / Register / Take / Leave of the abstract channel or leaves it alone; action properties HeadOnly,
    Broadcast, OrderKept, ClosedForGood); Apalache proves the invariant of ChanAbs (the backlog of every consumer is
    the gapless run of the last messages accepted) inductive"""
    import core
    for label, consts in (CONFIGS if check.tier == 'quick' else THOROUGH):
        if check.tier == 'quick' and label not in REFINE_QUICK:
            continue
        check.model_check('refine_' + label, 'USimRef', 'Spec', consts, ['ChanInv'],
                          properties=['ChanRefines1', 'ChanHead1', 'ChanBroadcast1', 'ChanOrder1', 'ChanClosed1'],
                          coverage=False)
    core.apalache_inductive(check, 'MC_ChanAbs', 'ChanAbs')


def run(check):
    refinement(check)
    usimrun.explore(check, OBS, CONFIGS if check.tier == 'quick' else THOROUGH, random=True,
                    invariants=('NoFault', 'NoForeignSignal', 'RunLive', 'CascadeShape', 'ChannelExact', 'ChannelConsumersDistinct'))
