"""C15 - run() ends at quiescence, reports failures and keeps simulations isolated."""
import itertools
import os
import random
import sys

import core
import tlc
import usimrun

OBS = 'ObsC15'


def run(check):
    import runharness
    # design level: the thread-local loop stack keeps simulations isolated under every interleaving
    consts = dict(Threads={1, 2}, MaxDepth=2, MaxRuns=5 if check.tier == 'quick' else 6, Shared=False)
    cfg = os.path.join(check.tmp, 'runm.cfg')
    tlc.write_cfg(cfg, 'Spec', consts, invariants=['Isolation', 'ProbeSeesOwn'])
    with open(cfg) as fh:
        text = fh.read()
    with open(cfg, 'w') as fh:
        fh.write('\n'.join(l for l in text.splitlines()
                           if not any(l.strip().startswith(k + ' =') for k in tlc.DEFAULTS)) + '\n')
    r = tlc.run_tlc('RunM', cfg, workers=8)
    if r.errors or r.violated:
        raise core.MachineryError('RunM.tla: %s' % (r.violated or r.errors)[:3])
    check.states += r.distinct
    check.transitions += r.generated
    check.tlc_runs.append({'label': 'RunM', 'module': 'RunM', 'constants': core._jsonable(consts), 'distinct': r.distinct,
                           'generated': r.generated, 'invariants': ['Isolation', 'ProbeSeesOwn'], 'wall_s': round(r.wall, 1)})
    rng = random.Random(check.seed)
    runs = []
    # every single run of one or two roots, on one thread
    kinds = ['ok', 'raise', 'ret', 'nested_ok', 'nested_raise', 'cleanup']
    singles = [[{'kind': k, 'd': d}] for k in kinds for d in (0, 1)]
    pairs = [[a[0], b[0]] for a in singles for b in singles]
    for roots in singles + pairs:
        for start in (0, 3):
            script = [[{'start': start, 'roots': roots}, {'start': 0, 'roots': [{'kind': 'ok', 'd': 1}]}]]
            runs.append((script, runharness.Experiment(script).run(False), 1))
    # random sequences of runs, sequential and in real threads that are forced to overlap inside their simulations
    n = 150 if check.tier == 'quick' else 3000
    sys.setswitchinterval(1e-5)
    for i in range(n):
        nth = rng.choice([2, 3, 4])
        scripts = [runharness.random_script(rng) for _ in range(nth)]
        runs.append((scripts, runharness.Experiment(scripts).run(False), nth))
        runs.append((scripts, runharness.Experiment(scripts, overlap=True).run(True), nth))
    check.programs += len(runs)
    check.extra['threaded_experiments'] = n
    usimrun.judge(check, OBS, runs)


def replay(path):
    import json
    import runharness
    with open(path) as fh:
        body = json.load(fh)
    scripts = body['program']
    check = core.Check('C15', 'quick', 0)
    traces = [runharness.Experiment(scripts).run(False), runharness.Experiment(scripts, overlap=True).run(True)]
    rej = check.validate(OBS, traces, label='replay')
    import shutil
    shutil.rmtree(check.tmp, ignore_errors=True)
    for e in traces[0]:
        print(json.dumps(e))
    if rej:
        print('VIOLATION property=C15 replay=%s clause=%s at event %d' % (path, rej[0][1], rej[0][2]))
        return 1
    print('replay of %s: traces accepted by %s' % (path, OBS))
    return 0
