"""C19 - SimPy resources keep capacity, conserve content, serve requests in policy order."""
import os

import core
import tlc
import usimrun
from witness import parse_witnesses

OBS = 'ObsC19'
INVS = ['WithinCapacity', 'Conserved', 'ItemsOnce', 'Settled']


def _one(sc):
    import simpyres
    return simpyres.run_history(sc)


def run(check):
    consts = dict(MaxLen=4 if check.tier == 'quick' else 5)
    cfg = os.path.join(check.tmp, 'simpy.cfg')
    tlc.write_cfg(cfg, 'Spec', consts, invariants=INVS + ['Emit'])
    with open(cfg) as fh:
        text = fh.read()
    with open(cfg, 'w') as fh:
        fh.write('\n'.join(l for l in text.splitlines()
                           if not any(l.strip().startswith(k + ' =') for k in tlc.DEFAULTS)) + '\n')
    r = tlc.run_tlc('SimPy', cfg, workers=8)
    if r.errors or r.violated:
        raise core.MachineryError('SimPy.tla: %s' % (r.violated or r.errors)[:3])
    scenarios, bad = parse_witnesses(r)
    check.states += r.distinct
    check.transitions += r.generated
    check.tlc_runs.append({'label': 'histories', 'module': 'SimPy', 'constants': consts, 'distinct': r.distinct,
                           'generated': r.generated, 'histories': len(scenarios), 'invariants': INVS,
                           'wall_s': round(r.wall, 1)})
    import multiprocessing
    with multiprocessing.get_context('fork').Pool(16) as pool:
        traces = pool.map(_one, scenarios, chunksize=200)
    runs = [(sc, t, 1) for sc, t in zip(scenarios, traces)]
    check.programs += len(runs)
    check.extra['exhaustive'] = True
    usimrun.judge(check, OBS, runs)


def replay(path):
    import json
    import shutil
    with open(path) as fh:
        body = json.load(fh)
    trace = _one(body['program'])
    check = core.Check('C19', 'quick', 0)
    rej = check.validate(OBS, [trace], label='replay')
    shutil.rmtree(check.tmp, ignore_errors=True)
    for e in trace:
        print(json.dumps(e))
    if rej:
        print('VIOLATION property=C19 replay=%s clause=%s at event %d' % (path, rej[0][1], rej[0][2]))
        return 1
    print('replay of %s: trace accepted by %s' % (path, OBS))
    return 0
