"""C04: scope/task configurations of USim, witnesses replayed on the real code, verdict by ObsC04."""
import scopedom

OBS = 'ObsC04'
LABELS = {'quick': 'abort nested graceful until supervisor'.split(), 'thorough': 'abort nested graceful until supervisor'.split()}


def run(check):
    scopedom.run(check, OBS, LABELS[check.tier])
