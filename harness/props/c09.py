"""C09 - Lock: mutual exclusion, re-entrancy, FIFO hand-off, always released."""
import usimrun

OBS = 'ObsC09'

BASE = dict(MaxScopes=1, Horizon=2, NFlags=1, NLocks=1)
CONFIGS = {
    'quick': [
        ('contend', dict(BASE, NRoots=3, MaxActs=3, RootOps=3, TaskOps=0,
                         Menu={'enter', 'leave', 'instant', 'sleep', 'avail'}), None),
        ('until', dict(BASE, NRoots=2, MaxActs=2, RootOps=4, TaskOps=0, MaxScopes=2,
                       Menu={'enter', 'leave', 'instant', 'until_d', 'sleep'}), None),
        ('cancel', dict(BASE, NRoots=1, MaxActs=3, RootOps=5, TaskOps=3,
                        Menu={'enter', 'leave', 'instant', 'open', 'do', 'cancel'}), None),
        ('close', dict(BASE, NRoots=1, MaxActs=3, RootOps=5, TaskOps=2,
                       Menu={'enter', 'leave', 'instant', 'open', 'do', 'do_volatile', 'raise'}), None),
    ],
}
CONFIGS['thorough'] = CONFIGS['quick'] + [
    ('contend4', dict(BASE, NRoots=3, MaxActs=3, RootOps=4, TaskOps=0, Menu={'enter', 'leave', 'instant', 'avail'}), None),
    ('cancel4', dict(BASE, NRoots=1, MaxActs=4, RootOps=6, TaskOps=3,
                     Menu={'enter', 'leave', 'instant', 'open', 'do', 'cancel'}), 250000),
]
INVS = ['NoFault', 'NoForeignSignal', 'RunLive', 'CascadeShape', 'MutualExclusion', 'OwnerConsistent',
        'LockFreeWhenUnused']


REFINE = ['contend', 'until', 'cancel', 'close']


def refinement(check):
    """design level: USim refines the abstract lock LockAbs (TLC), whose invariant Apalache proves inductive"""
    import core
    import os
    import subprocess
    import tempfile
    import shutil
    import time
    import tlc
    for label, consts, _ in CONFIGS['quick']:
        if label in REFINE:
            check.model_check('refine_' + label, 'USimRef', 'Spec', consts, ['LockInv'],
                              properties=['LockRefines1', 'LockFifo1', 'LockOrder1'], coverage=False)
    out = tempfile.mkdtemp(prefix='usimverif-apa-')
    try:
        for name, args in (('base', ['--init=Init', '--inv=IndInv', '--length=0']),
                           ('step', ['--init=IndInit', '--inv=IndInv', '--length=1'])):
            t0 = time.time()
            p = subprocess.run(['apalache-mc', 'check', '--out-dir=' + out] + args + ['MC_LockAbs.tla'], cwd=tlc.SPEC_DIR,
                               stdout=subprocess.PIPE, stderr=subprocess.STDOUT, text=True, timeout=1200)
            ok = p.returncode == 0 and 'The outcome is: NoError' in p.stdout
            check.tlc_runs.append({'label': 'apalache_inductive_' + name, 'module': 'MC_LockAbs', 'tool': 'apalache-mc',
                                   'args': args, 'outcome': 'NoError' if ok else 'Error', 'wall_s': round(time.time() - t0, 1)})
            if not ok:
                raise core.MachineryError('Apalache: IndInv of LockAbs is not inductive (%s): %s' % (name, p.stdout[-600:]))
    finally:
        shutil.rmtree(out, ignore_errors=True)
        shutil.rmtree(os.path.join(tlc.SPEC_DIR, '_apalache-out'), ignore_errors=True)


def run(check):
    refinement(check)
    runs = []
    for label, consts, limit in CONFIGS[check.tier]:
        ws = check.witnesses(label, consts, emit='EmitOps', invariants=INVS, coverage=check.tier == 'thorough', limit=limit)
        runs += [(p, t, consts['NRoots']) for p, t in usimrun.replay(check, ws, consts, limit=limit)]
    runs += usimrun.random_runs(check)     # random programs over the whole vocabulary
    runs += usimrun.teardown_runs(check)   # holders / waiters torn down in every way, then inspected
    runs += usimrun.waiter_runs(check, 'lock')     # 3..6 waiters, some leave from the middle of the waiting list
    traces = [r[1] for r in runs]
    for idx, clause, pos in check.validate('ObsC09', traces):
        check.report(clause, runs[idx][0], runs[idx][1], pos, extra=usimrun.run_extra(runs[idx]))
    check.samples = [{'program': r[0], 'trace': r[1][:12]} for r in runs[:: max(1, len(runs) // 3)][:3]]
