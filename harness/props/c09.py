"""C09 - Lock: mutual exclusion, re-entrancy, FIFO hand-off, always released."""
import usimrun

OBS = 'ObsC09'

BASE = dict(MaxScopes=1, Horizon=2, NFlags=1, NLocks=1)
CONFIGS = {
    'quick': [
        ('contend', dict(BASE, NRoots=3, MaxActs=3, RootOps=3, TaskOps=0,
                         Menu={'enter', 'leave', 'instant', 'sleep', 'avail'}), None),
        ('until', dict(BASE, NRoots=2, MaxActs=2, RootOps=4, TaskOps=0, MaxScopes=2,
                       Menu={'enter', 'leave', 'instant', 'until_d', 'sleep'}), None),
        ('cancel', dict(BASE, NRoots=1, MaxActs=3, RootOps=5, TaskOps=3,
                        Menu={'enter', 'leave', 'instant', 'open', 'do', 'cancel'}), None),
        ('close', dict(BASE, NRoots=1, MaxActs=3, RootOps=5, TaskOps=2,
                       Menu={'enter', 'leave', 'instant', 'open', 'do', 'do_volatile', 'raise'}), None),
    ],
}
CONFIGS['thorough'] = CONFIGS['quick'] + [
    ('contend4', dict(BASE, NRoots=3, MaxActs=3, RootOps=4, TaskOps=0, Menu={'enter', 'leave', 'instant', 'avail'}), None),
    ('cancel4', dict(BASE, NRoots=1, MaxActs=4, RootOps=6, TaskOps=3,
                     Menu={'enter', 'leave', 'instant', 'open', 'do', 'cancel'}), 250000),
]
INVS = ['NoFault', 'NoForeignSignal', 'RunLive', 'CascadeShape', 'MutualExclusion', 'OwnerConsistent',
        'LockFreeWhenUnused']


def run(check):
    runs = []
    for label, consts, limit in CONFIGS[check.tier]:
        ws = check.witnesses(label, consts, emit='EmitOps', invariants=INVS, coverage=check.tier == 'thorough', limit=limit)
        runs += [(p, t, consts['NRoots']) for p, t in usimrun.replay(check, ws, consts, limit=limit)]
    runs += usimrun.random_runs(check)     # random programs over the whole vocabulary
    traces = [r[1] for r in runs]
    for idx, clause, pos in check.validate('ObsC09', traces):
        check.report(clause, runs[idx][0], runs[idx][1], pos, extra=usimrun.run_extra(runs[idx]))
    check.samples = [{'program': r[0], 'trace': r[1][:12]} for r in runs[:: max(1, len(runs) // 3)][:3]]
