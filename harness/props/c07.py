"""C07: scope/task configurations of USim, witnesses replayed on the real code, verdict by ObsC07."""
import scopedom

OBS = 'ObsC07'
LABELS = {'quick': 'until until_kids until_time'.split(), 'thorough': 'until until_kids until_time'.split()}


def run(check):
    scopedom.run(check, OBS, LABELS[check.tier])
