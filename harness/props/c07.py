"""C07: scope/task configurations of USim, witnesses replayed on the real code, verdict by ObsC07."""
import scopedom
import usimrun

OBS = 'ObsC07'
LABELS = {'quick': 'until until_kids until_late until_time until_conn'.split(),
          'thorough': 'until until_kids until_late until_time until_conn'.split()}


def run(check):
    import random
    import storm
    # beyond TLC's bounds: until-blocks on float dates entered at fractional times (dates mapped to ranks)
    rng = random.Random(check.seed)
    n = 2500 if check.tier == 'quick' else 40000
    progs = [storm.timing_program(rng) for _ in range(n)]
    results = usimrun.run_many([p['roots'] for p in progs], None, starts=[p['start'] for p in progs])
    more = [(p, storm.rankify(log), len(p['roots'])) for p, (log, outcome) in zip(progs, results)]
    check.programs += n
    check.extra['storm_programs'] = n
    scopedom.run(check, OBS, LABELS[check.tier], more=more)
