"""C08 - Awaiting a condition returns only when it is true, and is never missed."""
import usimrun

OBS = 'ObsC08'
B = dict(NLocks=0, Horizon=2, MaxScopes=1, TaskOps=0)
INV = ('NoFault', 'NoForeignSignal', 'RunLive', 'NoMissedWake')
CONFIGS = [
    # plain flags / inverse flags with changes that revert inside one time step, several waiters
    ('flags', dict(B, NRoots=3, MaxActs=3, RootOps=3, NFlags=1, Menu={'instant', 'sleep', 'fset', 'await_f'}), INV),
    # connectives over flags, algebra probes
    ('flat', dict(B, NRoots=2, MaxActs=2, RootOps=4, NFlags=2, CondSel='flat',
                  Menu={'instant', 'fset', 'await_conn', 'probe_c'}), INV),
    # connectives mixing flags and time atoms (incl. moments that pass)
    ('timed', dict(B, NRoots=2, MaxActs=2, RootOps=3, NFlags=1, CondSel='timed',
                   Menu={'instant', 'sleep', 'fset', 'await_conn'}), INV),
    ('past', dict(B, NRoots=2, MaxActs=2, RootOps=3, NFlags=1, CondSel='past',
                  Menu={'instant', 'sleep', 'fset', 'await_conn'}), INV),
    # task completion as a condition
    ('done', dict(B, NRoots=1, MaxActs=3, RootOps=5, TaskOps=2, NFlags=1,
                  Menu={'instant', 'sleep', 'open', 'do', 'cancel', 'await_t', 'leave'}), INV),
    # resource-level comparisons: several waiters of different thresholds on one level that rises and falls
    ('levels', dict(B, NRoots=3, MaxActs=3, RootOps=3, NFlags=1, NRes=1, MaxPools=2, ResInit=1, Horizon=1,
                    Menu={'instant', 'await_lvl', 'rchange'}), INV),
    # all six comparisons of a tracked value (>=, <=, >, <, ==, !=), two activities
    ('rels', dict(B, NRoots=2, MaxActs=2, RootOps=3, NFlags=1, NRes=1, MaxPools=2, ResInit=1, Horizon=1,
                  Menu={'instant', 'await_lvl', 'lvl_rels', 'rchange'}), INV),
    # ONE comparison object shared by several waiters, some of which leave early (until) while it is still false
    ('shared', dict(B, NRoots=3, MaxActs=3, RootOps=2, NFlags=1, NRes=1, MaxPools=2, ResInit=0, Horizon=2, MaxScopes=1,
                    Menu={'sleep', 'await_lvl', 'lvl_shared', 'rchange', 'until_d', 'leave'}), INV),
    # the setter is interrupted inside `set` / `increase` (an until-block whose flag is already set): the level has
    # changed, so the waiters of comparisons that hold now must have been woken all the same
    ('set_cut', dict(B, NRoots=2, MaxActs=2, RootOps=3, NFlags=1, NRes=1, MaxPools=2, ResInit=0, Horizon=1, MaxScopes=1,
                     Menu={'await_lvl', 'rchange', 'until_f', 'fset', 'leave'}), INV),
    # supplies with TWO resource types: >=, >, <=, < hold iff they hold for every type, == iff all are equal, != is its
    # negation; set() replaces only the types it names; types left out of a comparison count as zero
    ('levels2', dict(B, NRoots=2, MaxActs=2, RootOps=3, NFlags=1, NRes=1, MaxPools=2, ResInit=1, NT=2, ResInitB=0, MaxLevel=2,
                     AmtMax=1, Horizon=1, Menu={'instant', 'await_lvl', 'lvl_rels', 'rchange', 'levels'}), INV),
    ('levels2s', dict(B, NRoots=3, MaxActs=3, RootOps=2, NFlags=1, NRes=1, MaxPools=2, ResInit=0, NT=2, ResInitB=0, MaxLevel=2,
                      AmtMax=1, Horizon=1, Menu={'await_lvl', 'rchange'}), INV),
    # nested connectives: the model follows the code (known finding), so NoMissedWake is not claimed here
    ('nested', dict(B, NRoots=2, MaxActs=2, RootOps=3, NFlags=2, CondSel='nested',
                    Menu={'instant', 'sleep', 'fset', 'await_conn'}), ('NoFault', 'RunLive')),
]


def run(check):
    from concurrent.futures import ThreadPoolExecutor
    runs = []
    lim = 15000 if check.tier == 'quick' else 250000

    def one(cfg):       # the TLC runs of the configurations overlap
        label, consts, inv = cfg
        return consts, check.witnesses(label, consts, emit='EmitOps', coverage=check.tier == 'thorough',
                                       limit=max(lim, 60000) if label == 'shared' else lim,
                                       invariants=list(inv) + (['NoStuck'] if check.tier == 'thorough' else []))
    with ThreadPoolExecutor(3) as ex:
        generated = list(ex.map(one, CONFIGS))
    for consts, ws in generated:
        runs += [(p, t, consts['NRoots']) for p, t in usimrun.replay(check, ws, consts, limit=max(lim, 60000))]
    runs += usimrun.random_runs(check)     # random programs over the whole vocabulary
    runs += usimrun.teardown_runs(check)   # holders / waiters torn down in every way, then inspected
    # time conditions on float dates awaited at fractional / huge / infinite clock readings (dates mapped to ranks)
    import random
    import storm
    rng = random.Random(check.seed + 7)
    n = 2500 if check.tier == 'quick' else 40000
    progs = [storm.timing_program(rng) for _ in range(n)]
    results = usimrun.run_many([p['roots'] for p in progs], None, starts=[p['start'] for p in progs])
    runs += [(p, storm.rankify(log), len(p['roots'])) for p, (log, outcome) in zip(progs, results)]
    check.programs += n
    check.extra['timing_storm_programs'] = n
    usimrun.judge(check, OBS, runs)
