"""C14 - interval() ticks on a fixed grid, delay() pauses a fixed span, for any body."""
import random

import storm
import usimrun

OBS = 'ObsC14'
B = dict(NLocks=0, NFlags=1, MaxScopes=1, TaskOps=0)
INV = ('NoFault', 'RunLive', 'FutureOnly')
CONFIGS = [
    ('mixed', dict(B, NRoots=2, MaxActs=2, RootOps=4, Horizon=4, TickSel='mixed', Menu={'instant', 'sleep', 'tick'})),
    ('until', dict(B, NRoots=2, MaxActs=2, RootOps=4, Horizon=3, MaxScopes=2, TickSel='basic',
                   Menu={'instant', 'sleep', 'tick', 'until_d', 'leave'})),
]


# a late step racing with the interrupt of an enclosing until(flag) that is set in the very time step the body ends
LATE = ('late', dict(B, NRoots=2, MaxActs=2, RootOps=4, Horizon=3, MaxScopes=1, TickSel='basic',
                     Menu={'sleep', 'tick', 'until_f', 'fset', 'leave'}))
CONFIGS.append(LATE)
# tickers in children that are closed forcefully in the middle of a pause (until trigger, volatile child at the end of
# its block) while a neighbour goes on ticking past the date of that pause
CLOSED = ('closed', dict(B, NRoots=2, MaxActs=3, RootOps=3, TaskOps=1, Horizon=4, MaxScopes=1, TickSel='mixed',
                         Menu={'sleep', 'tick', 'until_d', 'do', 'do_volatile', 'leave'}))
CONFIGS.append(CLOSED)
THOROUGH = CONFIGS
QUICK = [LATE, CLOSED,
    ('mixed', dict(B, NRoots=2, MaxActs=2, RootOps=3, Horizon=4, TickSel='mixed', Menu={'instant', 'sleep', 'tick'})),
    ('until', dict(B, NRoots=2, MaxActs=2, RootOps=3, Horizon=3, MaxScopes=2, TickSel='basic',
                   Menu={'instant', 'sleep', 'tick', 'until_d', 'leave'})),
]


def run(check):
    runs = usimrun.explore(check, None, QUICK if check.tier == 'quick' else THOROUGH, invariants=INV, limit=15000 if check.tier == 'quick' else 250000)
    rng = random.Random(check.seed)
    n = 3000 if check.tier == 'quick' else 40000
    progs = [storm.tick_program(rng) for _ in range(n)]
    results = usimrun.run_many([p['roots'] for p in progs], None, starts=[p['start'] for p in progs])
    for p, (log, outcome) in zip(progs, results):
        check.programs += 1
        runs.append((p, storm.rankify(log), len(p['roots'])))
    check.extra['storm_programs'] = n
    usimrun.judge(check, OBS, runs)
    usimrun.judge(check, 'ObsC20', runs)      # both always let other activities run between iterations
