"""C12 - Resources are conserved: never negative, never leaked, claims never wait."""
import usimrun

OBS = 'ObsC12'
B = dict(NLocks=0, NFlags=1, Horizon=1, MaxScopes=1, TaskOps=0, NRes=1)
PURE = ('NoFault', 'RunLive', 'Conservation', 'ShareBounded')
LOOSE = ('NoFault', 'RunLive', 'ShareBounded')
CONFIGS = [
    # contention: borrowers that must wait, claims, probes of the level at every boundary
    ('contend', dict(B, NRoots=3, MaxActs=3, RootOps=3, MaxPools=5, ResInit=2,
                     Menu={'instant', 'borrow', 'leave'}), PURE),
    ('claim', dict(B, NRoots=2, MaxActs=2, RootOps=3, MaxPools=4, ResInit=2,
                   Menu={'instant', 'borrow', 'claim', 'leave', 'levels'}), PURE),
    # nested borrowing from a share, Capacities
    ('nested', dict(B, NRoots=2, MaxActs=2, RootOps=4, MaxPools=5, ResInit=2, _reskind='cap',
                    Menu={'instant', 'borrow', 'nested', 'leave', 'levels'}), PURE),
    # concurrent increase / decrease / set (supply changes: conservation is judged by the monitor only)
    ('change', dict(B, NRoots=2, MaxActs=2, RootOps=4, MaxPools=4, ResInit=1,
                    Menu={'instant', 'borrow', 'leave', 'rchange', 'levels'}), LOOSE),
    # forced close of holders and waiters (GeneratorExit path with helper activities), body exceptions
    ('close', dict(B, NRoots=1, MaxActs=3, RootOps=5, TaskOps=2, MaxPools=4, ResInit=1,
                   Menu={'instant', 'borrow', 'leave', 'open', 'do', 'raise', 'levels'}), LOOSE),
    # two holders torn down in ONE activation (failing scope body), supply 2: the dispatched give-backs interleave
    ('close2', dict(B, NRoots=1, MaxActs=3, RootOps=5, TaskOps=2, MaxPools=4, ResInit=2,
                    Menu={'instant', 'borrow', 'leave', 'open', 'do', 'raise'}), LOOSE),
    # cancel / until interrupts at every boundary incl. while acquiring or releasing (known finding territory)
    ('cancel', dict(B, NRoots=1, MaxActs=3, RootOps=5, TaskOps=2, MaxPools=4, ResInit=1,
                    Menu={'instant', 'borrow', 'leave', 'open', 'do', 'cancel'}), LOOSE),
    ('until', dict(B, NRoots=2, MaxActs=2, RootOps=4, MaxScopes=2, MaxPools=4, ResInit=1,
                   Menu={'instant', 'borrow', 'leave', 'until_f', 'fset'}), LOOSE),
    # supplies with TWO resource types (levels and amounts are vectors): a borrow waits for, and takes, all types in
    # one step; a claim fails if ANY type is short; set() replaces only the types it names
    ('vec_contend', dict(B, NRoots=2, MaxActs=2, RootOps=3, MaxPools=4, ResInit=1, NT=2, ResInitB=1, AmtMax=1,
                         Menu={'instant', 'borrow', 'claim', 'leave', 'levels'}), PURE + ('NonNegative',)),
    ('vec_change', dict(B, NRoots=2, MaxActs=2, RootOps=3, MaxPools=3, ResInit=1, NT=2, ResInitB=1, MaxLevel=2, AmtMax=1,
                        Menu={'borrow', 'leave', 'rchange', 'levels'}), LOOSE + ('NonNegative',)),
    ('vec_close', dict(B, NRoots=1, MaxActs=2, RootOps=4, TaskOps=2, MaxPools=3, ResInit=1, NT=2, ResInitB=1, AmtMax=1,
                       Menu={'instant', 'borrow', 'leave', 'open', 'do', 'raise', 'levels'}), LOOSE),
]
THOROUGH = CONFIGS + [
    ('contend3', dict(B, NRoots=3, MaxActs=3, RootOps=3, MaxPools=5, ResInit=2,
                      Menu={'instant', 'borrow', 'claim', 'leave', 'levels'}), PURE),
]


REFINE = {'quick': ('vec_close',), 'thorough': ('claim', 'close', 'cancel', 'vec_close')}
NO_INTERRUPT = ('contend', 'claim', 'nested', 'change', 'vec_contend', 'vec_change')


def refinement(check):
    """design level: USim refines the abstract ledger ResAbs (TLC: every step of the detailed model that touches the
    level of supply 1 or what is owed to it is a Take / Give / Change / Forfeit; no Forfeit on configurations without
    interrupts; level + owed constant where the supply is not changed); Apalache proves NonNegative inductive; TLC
    checks that the quantifier-free step relation used here equals the one with named amounts (ResAbsEq)"""
    import core
    for label, consts, inv in THOROUGH:
        if label not in REFINE[check.tier]:
            continue
        props = ['ResRefines1'] + (['ResNoForfeit1'] if label in NO_INTERRUPT else []) + \
                (['ResConserved1'] if 'Conservation' in inv else [])
        check.model_check('refine_' + label, 'USimRef', 'Spec', consts, ['ResInv'], properties=props, coverage=False)
    check.model_check('ledger_relations_equal', 'ResAbsEq', 'SpecEq', dict(M=2), [], properties=['Same'], coverage=False)
    core.apalache_inductive(check, 'MC_ResAbs', 'ResAbs')


def run(check):
    refinement(check)
    from concurrent.futures import ThreadPoolExecutor
    runs = []

    def one(cfg):       # the TLC runs of the configurations overlap; replay on the real code is sequential
        label, consts, inv = cfg
        lim = (40000 if label in ('close', 'close2') else 12000) if check.tier == 'quick' else 250000
        return consts, lim, check.witnesses(label, consts, emit='EmitOps', coverage=check.tier == 'thorough', limit=lim,
                                            invariants=list(inv) + (['NoStuck'] if check.tier == 'thorough' else []))
    with ThreadPoolExecutor(3) as ex:
        generated = list(ex.map(one, CONFIGS if check.tier == 'quick' else THOROUGH))
    for consts, lim, ws in generated:
        runs += [(p, t, consts['NRoots']) for p, t in usimrun.replay(check, ws, consts, limit=lim)]
    runs += usimrun.random_runs(check)     # random programs over the whole vocabulary
    runs += usimrun.teardown_runs(check)   # holders / waiters torn down in every way, then inspected
    # random tear-downs of several holders of one supply of 3 while the supply is changed / borrowed / probed
    import random
    import storm
    rng = random.Random(check.seed)
    n = 6000 if check.tier == 'quick' else 60000
    progs = [storm.res_program(rng)['roots'] for _ in range(n)]
    world = dict(nres=1, resinit=3)
    usimrun.WORLD.clear()
    usimrun.WORLD.update(world)
    try:
        results = usimrun.run_many(progs, 2)
    finally:
        usimrun.WORLD.clear()
    runs += [(p, r[0], 2, world) for p, r in zip(progs, results)]
    check.programs += n
    check.extra['teardown_storm_programs'] = n
    usimrun.judge(check, OBS, runs)
