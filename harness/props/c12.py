"""C12 - Resources are conserved: never negative, never leaked, claims never wait."""
import usimrun

OBS = 'ObsC12'
B = dict(NLocks=0, NFlags=1, Horizon=1, MaxScopes=1, TaskOps=0, NRes=1)
PURE = ('NoFault', 'RunLive', 'Conservation', 'ShareBounded')
LOOSE = ('NoFault', 'RunLive', 'ShareBounded')
CONFIGS = [
    # contention: borrowers that must wait, claims, probes of the level at every boundary
    ('contend', dict(B, NRoots=3, MaxActs=3, RootOps=3, MaxPools=5, ResInit=2,
                     Menu={'instant', 'borrow', 'leave'}), PURE),
    ('claim', dict(B, NRoots=2, MaxActs=2, RootOps=3, MaxPools=4, ResInit=2,
                   Menu={'instant', 'borrow', 'claim', 'leave', 'levels'}), PURE),
    # nested borrowing from a share, Capacities
    ('nested', dict(B, NRoots=2, MaxActs=2, RootOps=4, MaxPools=5, ResInit=2, _reskind='cap',
                    Menu={'instant', 'borrow', 'nested', 'leave', 'levels'}), PURE),
    # concurrent increase / decrease / set (supply changes: conservation is judged by the monitor only)
    ('change', dict(B, NRoots=2, MaxActs=2, RootOps=4, MaxPools=4, ResInit=1,
                    Menu={'instant', 'borrow', 'leave', 'rchange', 'levels'}), LOOSE),
    # forced close of holders and waiters (GeneratorExit path with helper activities), body exceptions
    ('close', dict(B, NRoots=1, MaxActs=3, RootOps=5, TaskOps=2, MaxPools=4, ResInit=1,
                   Menu={'instant', 'borrow', 'leave', 'open', 'do', 'raise', 'levels'}), LOOSE),
    # cancel / until interrupts at every boundary incl. while acquiring or releasing (known finding territory)
    ('cancel', dict(B, NRoots=1, MaxActs=3, RootOps=5, TaskOps=2, MaxPools=4, ResInit=1,
                    Menu={'instant', 'borrow', 'leave', 'open', 'do', 'cancel'}), LOOSE),
    ('until', dict(B, NRoots=2, MaxActs=2, RootOps=4, MaxScopes=2, MaxPools=4, ResInit=1,
                   Menu={'instant', 'borrow', 'leave', 'until_f', 'fset'}), LOOSE),
]
THOROUGH = CONFIGS + [
    ('contend3', dict(B, NRoots=3, MaxActs=3, RootOps=3, MaxPools=5, ResInit=2,
                      Menu={'instant', 'borrow', 'claim', 'leave', 'levels'}), PURE),
]


def run(check):
    runs = []
    for label, consts, inv in (CONFIGS if check.tier == 'quick' else THOROUGH):
        runs += usimrun.explore(check, None, [(label, consts)], invariants=inv,
                                limit=None if label == 'close' else (12000 if check.tier == 'quick' else 250000))
    usimrun.judge(check, OBS, runs)
