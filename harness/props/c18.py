"""C18 - SimPy layer: events fire once; processes resume with the right value and time."""
import os
import random

import core
import tlc
import usimrun
from witness import parse_witnesses

OBS = 'ObsC18'


def _one(sc):
    import simpyev
    return simpyev.run_script(sc, embedded=sc.get('embedded', False))


def run(check):
    design(check)
    consts = dict(NP=2, NS=2)
    cfg = os.path.join(check.tmp, 'simpyev.cfg')
    tlc.write_cfg(cfg, 'Spec', consts, invariants=['Emit'])
    with open(cfg) as fh:
        text = fh.read()
    with open(cfg, 'w') as fh:
        fh.write('\n'.join(l for l in text.splitlines()
                           if not any(l.strip().startswith(k + ' =') for k in tlc.DEFAULTS)) + '\n')
    r = tlc.run_tlc('SimPyEv', cfg, workers=8)
    if r.errors or r.violated:
        raise core.MachineryError('SimPyEv.tla: %s' % (r.violated or r.errors)[:3])
    scenarios, bad = parse_witnesses(r)
    check.states += r.distinct
    check.transitions += r.generated
    check.tlc_runs.append({'label': 'scripts', 'module': 'SimPyEv', 'constants': consts, 'distinct': r.distinct,
                           'generated': r.generated, 'scripts': len(scenarios), 'wall_s': round(r.wall, 1)})
    rng = random.Random(check.seed)
    if check.tier == 'quick':
        scenarios = rng.sample(scenarios, 30000)
    # beyond the enumerated bound: seeded random scripts with 3 processes x 3 steps, nested conditions
    import simpyev
    scenarios = scenarios + [simpyev.random_script(rng) for _ in range(30000 if check.tier == 'quick' else 300000)]
    # the same scripts embedded in a native usim simulation next to a native activity waiting for event 1
    emb = [dict(sc, embedded=True) for sc in rng.sample(scenarios, min(len(scenarios), 15000 if check.tier == 'quick' else 150000))
           if sc['until'] < 10 and not sc.get('uz')]
    scenarios = scenarios + emb
    check.extra['embedded_scripts'] = len(emb)
    import multiprocessing
    with multiprocessing.get_context('fork').Pool(16) as pool:
        traces = pool.map(_one, scenarios, chunksize=200)
    runs = [(sc, t, 1) for sc, t in zip(scenarios, traces)]
    check.programs += len(runs)
    usimrun.judge(check, OBS, runs)
    # second verdict: every trace of a stand-alone run must be a behaviour of the operational specification SimPyOp
    alone = [r for r in runs if not r[0].get('embedded') and not r[0].get('uz')]       # (SimPyOp has no run(until=0) mode)
    for idx, clause, pos in check.validate('SimPyOpT', [r[1] for r in alone], label='op', spec='SpecT', consts={'NP': 1, 'NS': 1}):
        check.report(clause, alone[idx][0], alone[idx][1], pos)
    check.extra['traces_validated_against_SimPyOp'] = len(alone)


def design(check):
    """design level: the operational specification of the event / process layer with a most general script"""
    consts = dict(NP=2, NS=2)
    invs = ['CallbackOnce', 'NotPastUntil', 'QuiescentEnd']
    props = ['TriggerOnce', 'NothingLeftBehind', 'ClockMonotone']
    cfg = os.path.join(check.tmp, 'simpyop.cfg')
    tlc.write_cfg(cfg, 'Spec', consts, invariants=invs, properties=props)
    with open(cfg) as fh:
        text = fh.read()
    with open(cfg, 'w') as fh:
        fh.write('\n'.join(l for l in text.splitlines()
                           if not any(l.strip().startswith(k + ' =') for k in tlc.DEFAULTS)) + '\n')
    r = tlc.run_tlc('SimPyOp', cfg, workers=12)
    if r.errors or r.violated:
        raise core.MachineryError('SimPyOp.tla: %s' % (r.violated or r.errors)[:3])
    check.states += r.distinct
    check.transitions += r.generated
    check.tlc_runs.append({'label': 'simpyop', 'module': 'SimPyOp', 'constants': consts, 'invariants': invs, 'properties': props,
                           'distinct': r.distinct, 'generated': r.generated, 'complete': r.complete, 'wall_s': round(r.wall, 1)})


def replay(path):
    import json
    import shutil
    with open(path) as fh:
        body = json.load(fh)
    trace = _one(body['program'])
    check = core.Check('C18', 'quick', 0)
    rej = check.validate(OBS, [trace], label='replay')
    shutil.rmtree(check.tmp, ignore_errors=True)
    for e in trace:
        print(json.dumps(e))
    if rej:
        print('VIOLATION property=C18 replay=%s clause=%s at event %d' % (path, rej[0][1], rej[0][2]))
        return 1
    print('replay of %s: trace accepted by %s' % (path, OBS))
    return 0
