"""C20 - Every awaitable operation yields to the other runnable activities at least once."""
import usimrun

OBS = 'ObsC20'
B = dict(NLocks=0, NFlags=1, Horizon=1, MaxScopes=1, TaskOps=1)
INV = ('NoFault', 'RunLive')
# one or two actors next to spinner activities (`await instant` loops); every menu contains `instant`
CONFIGS = [
    ('flags', dict(B, NRoots=3, MaxActs=3, RootOps=3, Menu={'instant', 'fset', 'await_f', 'await_time'})),
    ('conn', dict(B, NRoots=2, MaxActs=2, RootOps=3, NFlags=2, CondSel='flat', Menu={'instant', 'fset', 'await_conn'})),
    ('queue', dict(B, NRoots=3, MaxActs=3, RootOps=3, NQueues=1, Menu={'instant', 'put', 'get', 'qclose'})),
    ('chan', dict(B, NRoots=3, MaxActs=3, RootOps=3, NChans=1, Menu={'instant', 'cput', 'cget', 'cclose'})),
    ('scope', dict(B, NRoots=2, MaxActs=4, RootOps=4, TaskOps=1,
                   Menu={'instant', 'open', 'do', 'leave', 'await_t', 'until_f', 'fset'})),
]


def run(check):
    usimrun.explore(check, OBS, CONFIGS, invariants=INV, limit=15000 if check.tier == 'quick' else None)
