"""C20 - Every awaitable operation yields to the other runnable activities at least once."""
import usimrun

OBS = 'ObsC20'
B = dict(NLocks=0, NFlags=1, Horizon=1, MaxScopes=1, TaskOps=1)
INV = ('NoFault', 'RunLive')
# one or two actors next to spinner activities (`await instant` loops); every menu contains `instant`
CONFIGS = [
    ('flags', dict(B, NRoots=3, MaxActs=3, RootOps=3, Menu={'instant', 'fset', 'await_f', 'await_time'})),
    ('conn', dict(B, NRoots=2, MaxActs=2, RootOps=3, NFlags=2, CondSel='flat', Menu={'instant', 'fset', 'await_conn'})),
    ('queue', dict(B, NRoots=3, MaxActs=3, RootOps=3, NQueues=1, Menu={'instant', 'put', 'get', 'qclose'})),
    ('chan', dict(B, NRoots=3, MaxActs=3, RootOps=3, NChans=1, Menu={'instant', 'cput', 'cget', 'cclose'})),
    ('scope', dict(B, NRoots=2, MaxActs=4, RootOps=4, TaskOps=1,
                   Menu={'instant', 'open', 'do', 'leave', 'await_t', 'until_f', 'fset'})),
    ('await_scope', dict(B, NRoots=2, MaxActs=3, RootOps=4, TaskOps=1, Menu={'instant', 'open', 'do', 'leave', 'await_s'})),
    ('levels', dict(B, NRoots=3, MaxActs=3, RootOps=3, NRes=1, MaxPools=2, ResInit=1, Menu={'instant', 'await_lvl', 'rchange'})),
]


def table():
    """operations outside the USim menu in states where they can complete at once, next to k spinners"""
    actors = {
        'transfer_zero': ({'pipe': 2}, [{'op': 'transfer', 'i': 1, 'v': 0, 'l': 0}]),
        'transfer_zero_limited': ({'pipe': 2}, [{'op': 'transfer', 'i': 1, 'v': 0, 'l': 1}]),
        'transfer_unbounded': ({'pipe': 0}, [{'op': 'transfer', 'i': 1, 'v': 3, 'l': 0}]),
        'transfer_unbounded_zero': ({'pipe': 0}, [{'op': 'transfer', 'i': 1, 'v': 0, 'l': 2}]),
        'collect_nothing': ({}, [{'op': 'flow', 'fop': 'collect', 'acts': [], 'k': 0, 'cons': 'prompt'}]),
        'collect_instant': ({}, [{'op': 'flow', 'fop': 'collect', 'acts': [{'d': 0, 'f': False}], 'k': 0, 'cons': 'prompt'}]),
        'first_instant': ({}, [{'op': 'flow', 'fop': 'first', 'acts': [{'d': 0, 'f': False}], 'k': 1, 'cons': 'prompt'}]),
        'tick_zero': ({}, [{'op': 'tick', 'i': 1, 'kind': 'interval', 'p': 0}, {'op': 'tick', 'i': 1, 'kind': 'interval', 'p': 0}]),
        'delay_zero': ({}, [{'op': 'tick', 'i': 2, 'kind': 'delay', 'p': 0}]),
        'borrow_available': ({}, [{'op': 'borrow', 'p': 1, 'amt': 1}, {'op': 'leave'}]),
        'claim_available': ({}, [{'op': 'claim', 'p': 1, 'amt': 1}, {'op': 'leave'}]),
        'borrow_nothing': ({}, [{'op': 'borrow', 'p': 1, 'amt': 0}, {'op': 'leave'}]),
        'increase': ({}, [{'op': 'inc', 'p': 1, 'amt': 1}, {'op': 'dec', 'p': 1, 'amt': 1}, {'op': 'rset', 'p': 1, 'amt': 2}]),
    }
    out = []
    for name, (kw, ops) in sorted(actors.items()):
        for k in (1, 2, 3):
            for lead in (0, 1):     # the actor runs before / after the spinners in the first turn
                spinners = [[{'op': 'instant'}] * 4 for _ in range(k)]
                actor = [{'op': 'instant'}] * lead + ops
                out.append((name, kw, [actor] + spinners if lead == 0 else spinners + [actor]))
    # a ticker whose body took exactly one period: the next step has nothing to wait for but must still yield
    for p in (1, 2):
        actor = [{'op': 'tick', 'i': 1, 'kind': 'interval', 'p': p}, {'op': 'sleep', 'd': p},
                 {'op': 'tick', 'i': 1, 'kind': 'interval', 'p': p}]
        spinner = [{'op': 'sleep', 'd': p}, {'op': 'sleep', 'd': p}] + [{'op': 'instant'}] * 3
        out.append(('tick_exact', {}, [spinner, actor]))
        out.append(('tick_exact', {}, [spinner, spinner, actor]))
    return out


def run(check):
    import puppet
    runs = usimrun.explore(check, None, CONFIGS, invariants=INV, limit=15000 if check.tier == 'quick' else 250000)
    # the same table for operations that live outside the USim menu (pipe, collect/first, tickers, resources)
    for name, kw, prog in table():
        log, outcome = puppet.run_program(prog, nroots=len(prog), nres=1, **kw)
        check.programs += 1
        runs.append(({'case': name, 'roots': prog}, log, len(prog)))
    check.extra['table_cases'] = len(table())
    runs += usimrun.random_runs(check)     # random programs over the whole vocabulary
    usimrun.judge(check, OBS, runs)
