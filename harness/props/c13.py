"""C13 - Pipe shares throughput proportionally; transfers end at the fluid-model time."""
import os

import core
import puppet
import tlc
import usimrun
from witness import parse_witnesses

OBS = 'ObsC13'
QUICK = dict(MaxX=2, Throughputs={0, 2, 3}, Volumes={0, 2, 3, 6}, Limits={0, 1, 2, 6}, Starts={0, 1}, Cancels={0, 1, 2})
# initial-state enumeration is sequential in TLC: ~42 000 three-transfer scenarios keep the thorough run near 15 min
# transfers whose limits differ by many orders of magnitude (limit 99 = 1e17, see PipeSem.Huge): three transfers, one
# of them huge, overlapping so that the huge one ends while the others are still active
# (throughput 98 = Pipe(throughput=math.inf))
HUGE = dict(MaxX=3, Throughputs={1, 98}, Volumes={1, 3}, Limits={0, 1, 99}, Starts={0, 2}, Cancels={0})
THOROUGH = dict(MaxX=3, Throughputs={0, 2, 3}, Volumes={3, 6}, Limits={0, 1, 6}, Starts={0, 1}, Cancels={0, 2})


def program(sc, mode='cancel'):
    """every transfer is a task started at its date; the root cancels the ones with a cancel date (mode cancel), or
    the transfer is the child of an until(delay) block that closes it forcefully at that date (mode close)"""
    root = [{'op': 'open', 'kind': 'scope', 'catch': True}]
    xs = sc['xs']
    if mode == 'twin':      # the same transfers on a second, independent pipe of the same throughput (numbered n+1 .. 2n)
        xs = list(xs) + list(xs)
    for i, x in enumerate(xs):
        xfer = [{'op': 'transfer', 'i': i + 1, 'v': x['v'], 'l': x['l'], 'pipe': 2 if i >= len(sc['xs']) else 1}]
        if mode == 'close' and x['c'] > 0:
            xfer = [{'op': 'open', 'kind': 'until_d', 'catch': True, 'd': x['c']},
                    {'op': 'do', 's': -1, 'vol': False, 'fin': 'none', 'd': 0, 'prog': xfer}, {'op': 'leave'}]
        root.append({'op': 'do', 's': -1, 'vol': False, 'fin': 'none', 'd': x['s'], 'prog': xfer})
    if mode == 'close':
        root.append({'op': 'leave'})
        return [root]
    now = 0
    for date, k in sorted((x['s'] + x['c'], i + 2) for i, x in enumerate(xs) if x['c'] > 0):
        if date > now:
            root.append({'op': 'sleep', 'd': date - now})
            now = date
        root.append({'op': 'cancel', 'k': k})
    root.append({'op': 'leave'})
    return [root]


def _one(job):
    sc, mode = job
    head = {'e': 'sc', 'a': 0, 'P': sc['P'], 'xs': sc['xs'], 'mode': mode}
    log, outcome = puppet.run_program(program(sc, mode), nroots=1, pipe=sc['P'], head=head)
    # the monitor needs the scenario, the transfer events and how the run ended
    keep = [e for e in log if e['e'] in ('sc', 'xb', 'xr', 'xu', 'xbad', 'fin')]
    if mode != 'twin':
        return keep
    # twin run: two pipes must not influence each other - each pipe's events alone must follow the fluid model
    n = len(sc['xs'])
    first = [e for e in keep if 'i' not in e or e['i'] <= n]
    second = [dict(e, i=e['i'] - n) if 'i' in e else e for e in keep if 'i' not in e or e['i'] > n]
    return first, second


def run(check):
    consts = QUICK if check.tier == 'quick' else THOROUGH
    cfg = os.path.join(check.tmp, 'pipe.cfg')
    tlc.write_cfg(cfg, 'Spec', consts, invariants=['AllEnd', 'LoneTime', 'ZeroTakesNoTime', 'NotFasterThanLimit', 'Emit'])
    with open(cfg) as fh:
        text = fh.read()
    with open(cfg, 'w') as fh:
        fh.write('\n'.join(l for l in text.splitlines()
                           if not any(l.strip().startswith(k + ' =') for k in tlc.DEFAULTS)) + '\n')
    r = tlc.run_tlc('Pipe', cfg, workers=8)
    if r.errors or r.violated:
        raise core.MachineryError('Pipe.tla: %s' % (r.violated or r.errors)[:3])
    scenarios, bad = parse_witnesses(r)
    check.states += r.distinct
    check.transitions += r.generated
    check.tlc_runs.append({'label': 'scenarios', 'module': 'Pipe', 'constants': core._jsonable(consts),
                           'distinct': r.distinct, 'generated': r.generated, 'scenarios': len(scenarios),
                           'invariants': ['AllEnd', 'LoneTime', 'ZeroTakesNoTime', 'NotFasterThanLimit'],
                           'wall_s': round(r.wall, 1)})
    # second scenario space: limits of very different magnitude
    tlc.write_cfg(cfg, 'Spec', HUGE, invariants=['AllEnd', 'ZeroTakesNoTime', 'NotFasterThanLimit', 'Emit'])
    with open(cfg) as fh:
        text = fh.read()
    with open(cfg, 'w') as fh:
        fh.write('\n'.join(l for l in text.splitlines()
                           if not any(l.strip().startswith(k + ' =') for k in tlc.DEFAULTS)) + '\n')
    r = tlc.run_tlc('Pipe', cfg, workers=8)
    if r.errors or r.violated:
        raise core.MachineryError('Pipe.tla (huge limits): %s' % (r.violated or r.errors)[:3])
    more, bad = parse_witnesses(r)
    more = [sc for sc in more if any(x['l'] == 99 for x in sc['xs']) or sc['P'] == 98]
    check.states += r.distinct
    check.transitions += r.generated
    check.tlc_runs.append({'label': 'scenarios_huge_limits', 'module': 'Pipe', 'constants': core._jsonable(HUGE),
                           'distinct': r.distinct, 'generated': r.generated, 'scenarios': len(more), 'wall_s': round(r.wall, 1)})
    scenarios = scenarios + more
    import multiprocessing
    with multiprocessing.get_context('fork').Pool(16) as pool:
        # a transfer is ended early by Task.cancel() or, in a second run of the scenario, by a forced close
        jobs = [(sc, 'cancel') for sc in scenarios] + [(sc, 'close') for sc in scenarios if any(x['c'] > 0 for x in sc['xs'])]
        # ... and, for a sample, on two independent pipes at once
        jobs += [(sc, 'twin') for sc in scenarios[::4] if len(sc['xs']) >= 1]
        traces = pool.map(_one, jobs, chunksize=200)
    runs = []
    for (sc, mode), t in zip(jobs, traces):
        if mode == 'twin':
            runs += [(dict(sc, mode='twin'), t[0], 1), (dict(sc, mode='twin'), t[1], 1)]
        else:
            runs.append((dict(sc, mode=mode), t, 1))
    check.programs += len(runs)
    check.extra['exhaustive'] = True
    usimrun.judge(check, OBS, runs)


def replay(path):
    import json
    import shutil
    with open(path) as fh:
        body = json.load(fh)
    sc = body['program']
    trace = _one(({k: v for k, v in sc.items() if k != 'mode'}, sc.get('mode', 'cancel')))
    check = core.Check('C13', 'quick', 0)
    traces = list(trace) if isinstance(trace, tuple) else [trace]
    rej = check.validate(OBS, traces, label='replay')
    trace = traces[rej[0][0]] if rej else traces[0]
    shutil.rmtree(check.tmp, ignore_errors=True)
    for e in trace:
        print(json.dumps(e))
    if rej:
        print('VIOLATION property=C13 replay=%s clause=%s at event %d' % (path, rej[0][1], rej[0][2]))
        return 1
    print('replay of %s: trace accepted by %s' % (path, OBS))
    return 0
