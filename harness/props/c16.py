"""C16 - collect()/first() give the right results at the right time and abort the rest."""
import os

import core
import tlc
import usimrun
from witness import parse_witnesses

OBS = 'ObsC16'


def program(sc):
    """the caller runs as a task so that it can be cancelled; a spinner keeps the time step busy"""
    call = {'op': 'flow', 'fop': sc['op'], 'acts': sc['acts'], 'k': sc['k'], 'cons': sc['cons']}
    body = [call, {'op': 'sleep', 'd': 1}]
    if sc['cons'] == 'until1':      # the call is made inside an until-block of the caller that expires at +1
        body = [{'op': 'open', 'kind': 'until_d', 'd': 1, 'catch': True}, call, {'op': 'leave'}, {'op': 'sleep', 'd': 1}]
    if sc['cons'] == 'until0':      # ... inside an until-block whose flag is already set: its interrupt is in flight
        body = [{'op': 'fset', 'f': 1, 'v': True}, {'op': 'open', 'kind': 'until_f', 'f': 1, 'catch': True}, call, {'op': 'leave'},
                {'op': 'sleep', 'd': 1}]
    if sc['cons'] == 'cancel0':     # the caller waits for a flag; it is woken and then cancelled before it gets its turn
        body = [{'op': 'await_f', 'f': 1, 'v': True}, call, {'op': 'sleep', 'd': 1}]
    root = [{'op': 'open', 'kind': 'scope', 'catch': True},
            {'op': 'do', 's': -1, 'vol': sc['cons'] == 'close1', 'fin': 'none', 'prog': body}]
    if sc['cons'] == 'cancel0':
        root += [{'op': 'instant'}, {'op': 'fset', 'f': 1, 'v': True}, {'op': 'cancel', 'k': 2}]
    if sc['cons'] == 'cancel1':
        root += [{'op': 'sleep', 'd': 1}, {'op': 'cancel', 'k': 2}]
    if sc['cons'] == 'close1':      # the scope ends at +1: its volatile child (the caller) is closed forcefully
        root += [{'op': 'sleep', 'd': 1}]
    root.append({'op': 'leave'})
    return [root]


def run(check):
    scenarios = []
    # second space: activities that last for ever (duration 99 = math.inf: time does reach infinity in usim)
    for label, consts in (('scenarios', dict(MaxN=3 if check.tier == 'quick' else 4, Durs={0, 1, 2})),
                          ('scenarios_infinite_durations', dict(MaxN=2 if check.tier == 'quick' else 3, Durs={0, 1, 99}))):
        cfg = os.path.join(check.tmp, 'flow.cfg')
        tlc.write_cfg(cfg, 'Spec', consts, invariants=['OrderIsPermutation', 'OrderSorted', 'FailTimeIsFirst', 'Emit'])
        with open(cfg) as fh:
            text = fh.read()
        # Flow has its own constants only
        with open(cfg, 'w') as fh:
            fh.write('\n'.join(l for l in text.splitlines()
                               if not any(l.strip().startswith(k + ' =') for k in tlc.DEFAULTS)) + '\n')
        r = tlc.run_tlc('Flow', cfg, workers=8)
        if r.errors or r.violated:
            raise core.MachineryError('Flow.tla: %s' % (r.violated or r.errors)[:3])
        more, bad = parse_witnesses(r)
        if 99 in consts['Durs']:
            more = [sc for sc in more if any(a['d'] == 99 for a in sc['acts']) and sc['cons'] != 'slow']
        check.states += r.distinct
        check.transitions += r.generated
        check.tlc_runs.append({'label': label, 'module': 'Flow', 'constants': core._jsonable(consts), 'distinct': r.distinct,
                               'generated': r.generated, 'scenarios': len(more), 'wall_s': round(r.wall, 1)})
        scenarios += more
    progs = [program(sc) for sc in scenarios]
    results = usimrun.run_many(progs, 1)
    runs = []
    for sc, p, (log, outcome) in zip(scenarios, progs, results):
        check.programs += 1
        runs.append((p, log, 1))
    check.extra['exhaustive'] = True
    usimrun.judge(check, OBS, runs)
