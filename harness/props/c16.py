"""C16 - collect()/first() give the right results at the right time and abort the rest."""
import os

import core
import tlc
import usimrun
from witness import parse_witnesses

OBS = 'ObsC16'


def program(sc):
    """the caller runs as a task so that it can be cancelled; a spinner keeps the time step busy"""
    call = {'op': 'flow', 'fop': sc['op'], 'acts': sc['acts'], 'k': sc['k'], 'cons': sc['cons']}
    root = [{'op': 'open', 'kind': 'scope', 'catch': True},
            {'op': 'do', 's': -1, 'vol': sc['cons'] == 'close1', 'fin': 'none', 'prog': [call, {'op': 'sleep', 'd': 1}]}]
    if sc['cons'] == 'cancel1':
        root += [{'op': 'sleep', 'd': 1}, {'op': 'cancel', 'k': 2}]
    if sc['cons'] == 'close1':      # the scope ends at +1: its volatile child (the caller) is closed forcefully
        root += [{'op': 'sleep', 'd': 1}]
    root.append({'op': 'leave'})
    return [root]


def run(check):
    consts = dict(MaxN=3 if check.tier == 'quick' else 4, MaxDur=2)
    cfg = os.path.join(check.tmp, 'flow.cfg')
    tlc.write_cfg(cfg, 'Spec', consts, invariants=['OrderIsPermutation', 'OrderSorted', 'FailTimeIsFirst', 'Emit'])
    with open(cfg) as fh:
        text = fh.read()
    # Flow has its own constants only
    with open(cfg, 'w') as fh:
        fh.write('\n'.join(l for l in text.splitlines()
                           if not any(l.strip().startswith(k + ' =') for k in tlc.DEFAULTS)) + '\n')
    r = tlc.run_tlc('Flow', cfg, workers=8)
    if r.errors or r.violated:
        raise core.MachineryError('Flow.tla: %s' % (r.violated or r.errors)[:3])
    scenarios, bad = parse_witnesses(r)
    check.states += r.distinct
    check.transitions += r.generated
    check.tlc_runs.append({'label': 'scenarios', 'module': 'Flow', 'constants': consts, 'distinct': r.distinct,
                           'generated': r.generated, 'scenarios': len(scenarios), 'wall_s': round(r.wall, 1)})
    progs = [program(sc) for sc in scenarios]
    results = usimrun.run_many(progs, 1)
    runs = []
    for sc, p, (log, outcome) in zip(scenarios, progs, results):
        check.programs += 1
        runs.append((p, log, 1))
    check.extra['exhaustive'] = True
    usimrun.judge(check, OBS, runs)
