"""C02 - The trace is a function of the program alone (deterministic FIFO turn order)."""
import json
import os
import random
import subprocess
import sys

import core
import storm
import usimrun

OBS = 'ObsC02'
HERE = os.path.dirname(os.path.dirname(os.path.abspath(__file__)))
B = dict(NFlags=1, NLocks=1, Horizon=2, MaxScopes=1, TaskOps=0)
# programs over the whole API, taken from the witness programs of these USim configurations
SOURCES = [
    ('lock', dict(B, NRoots=3, MaxActs=3, RootOps=3, Menu={'enter', 'leave', 'instant', 'sleep'})),
    ('scope', dict(B, NRoots=1, MaxActs=3, RootOps=4, TaskOps=2, Menu={'leave', 'instant', 'open', 'do', 'do_volatile', 'raise', 'cancel'})),
    ('flags', dict(B, NRoots=3, MaxActs=3, RootOps=3, Menu={'instant', 'sleep', 'fset', 'await_f', 'until_f', 'leave'}, MaxScopes=2)),
    ('queue', dict(B, NRoots=3, MaxActs=3, RootOps=3, NQueues=1, Menu={'instant', 'put', 'get', 'qclose'})),
    ('chan', dict(B, NRoots=3, MaxActs=3, RootOps=3, NChans=1, Menu={'instant', 'cput', 'cget', 'cnext', 'cclose'})),
    # several comparisons of one tracked value: three borrowers waiting on one supply
    ('res', dict(B, NRoots=3, MaxActs=3, RootOps=3, NRes=1, MaxPools=5, ResInit=2, Horizon=1, Menu={'instant', 'borrow', 'leave'})),
    ('cond', dict(B, NRoots=2, MaxActs=2, RootOps=3, NFlags=2, CondSel='timed', Menu={'instant', 'sleep', 'fset', 'await_conn'})),
    ('tick', dict(B, NRoots=2, MaxActs=2, RootOps=3, Horizon=4, TickSel='mixed', Menu={'instant', 'sleep', 'tick'})),
]
# configurations: (label, env, interpreter flags, heap perturbation seed)
MATRIX = [
    ('base', {'PYTHONHASHSEED': '0'}, [], 0),
    ('hash1', {'PYTHONHASHSEED': '1'}, [], 0),
    ('hashrandom', {'PYTHONHASHSEED': 'random'}, [], 0),
    ('heapA', {'PYTHONHASHSEED': '0'}, [], 11),
    ('heapB', {'PYTHONHASHSEED': '7'}, [], 12),
    ('sd', {'PYTHONHASHSEED': '0', 'USIM_WAITQUEUE': 'SD'}, [], 0),
    ('optimized', {'PYTHONHASHSEED': '0'}, ['-O'], 0),
    ('sd_heap_O', {'PYTHONHASHSEED': '3', 'USIM_WAITQUEUE': 'SD'}, ['-O'], 13),
]


def many_waiters(rng):
    """several borrowers with different amounts waiting on one supply that is released in steps"""
    roots = [[{'op': 'borrow', 'p': 1, 'amt': 2}, {'op': 'sleep', 'd': 1}, {'op': 'leave'}]]
    for _ in range(rng.randint(3, 6)):
        roots.append([{'op': 'instant'}] * rng.randint(0, 2) + [{'op': 'borrow', 'p': 1, 'amt': rng.choice([1, 1, 2])},
                     {'op': 'instant'}, {'op': 'leave'}])
    return roots


def run(check):
    rng = random.Random(check.seed)
    per = 120 if check.tier == 'quick' else 1500
    jobs = []
    for label, consts in SOURCES:
        ws = check.witnesses(label, consts, emit='EmitOps', invariants=['NoFault'])
        for w in rng.sample(ws, min(per, len(ws))):
            jobs.append({'prog': usimrun.strip(w['prog']), 'nroots': consts['NRoots'], 'kw': usimrun.world_args(consts), 'src': label})
    for _ in range(per):
        p = storm.timing_program(rng)
        jobs.append({'prog': p['roots'], 'nroots': len(p['roots']), 'start': p['start'], 'rank': True, 'src': 'storm'})
    for _ in range(per):
        roots = many_waiters(rng)
        jobs.append({'prog': roots, 'nroots': len(roots), 'kw': {'nres': 1, 'resinit': 2}, 'src': 'waiters'})
    # pipes and collect / first (scenario shapes of C13 / C16, drawn at random)
    import props.c13 as c13
    import props.c16 as c16
    for _ in range(per):
        sc = {'P': rng.choice([0, 2, 3]),
              'xs': [{'s': rng.choice([0, 1]), 'v': rng.choice([0, 2, 3, 6]), 'l': rng.choice([0, 1, 2, 6]), 'c': rng.choice([0, 0, 1, 2])}
                     for _ in range(rng.randint(1, 3))]}
        prog = c13.program(sc, rng.choice(['cancel', 'close']))
        jobs.append({'prog': prog, 'nroots': 1, 'kw': {'pipe': sc['P']}, 'src': 'pipe'})
    for _ in range(per):
        fop = rng.choice(['collect', 'first'])
        sc = {'op': fop, 'acts': [{'d': rng.choice([0, 1, 2]), 'f': rng.random() < 0.3} for _ in range(rng.randint(1, 3))],
              'k': 0 if fop == 'collect' else rng.choice([0, 1, 2, 99]),
              'cons': rng.choice(['prompt', 'cancel1', 'close1'] if fop == 'collect' else ['prompt', 'slow', 'break1', 'cancel1', 'close1'])}
        jobs.append({'prog': c16.program(sc), 'nroots': 1, 'src': 'flow'})
    src = os.path.join(check.tmp, 'programs.json')
    with open(src, 'w') as fh:
        json.dump(jobs, fh)
    repo = os.environ.get('VERIF_REPO', '/repo')
    procs = []
    for label, env, flags, seed in MATRIX:
        e = dict(os.environ, PYTHONPATH=repo + ':' + HERE, PYTHONDONTWRITEBYTECODE='1')
        e.pop('USIM_WAITQUEUE', None)
        e.update(env)
        dst = os.path.join(check.tmp, 'out_%s.json' % label)
        cmd = ['/venv/bin/python', '-W', 'ignore'] + flags + [os.path.join(HERE, 'c02worker.py'), src, dst, str(seed)]
        procs.append((label, dst, subprocess.Popen(cmd, env=e, stdout=subprocess.PIPE, stderr=subprocess.STDOUT, text=True)))
    results = []
    for label, dst, p in procs:
        out, _ = p.communicate()
        if p.returncode:
            raise core.MachineryError('C02 worker %s failed: %s' % (label, out[-500:]))
        with open(dst) as fh:
            results.append(json.load(fh))
    runs = []
    for i, job in enumerate(jobs):
        logs = [r[i] for r in results]
        n = max(len(x) for x in logs)
        opt = ['-O' in m[2] for m in MATRIX]
        rows = [{'row': [x[k] if k < len(x) else {'e': '(end)'} for x in logs], 'opt': opt} for k in range(n)]
        runs.append(({'program': job['prog'], 'src': job['src'], 'configs': [m[0] for m in MATRIX]}, rows, job['nroots']))
    check.programs += len(jobs) * len(MATRIX)
    check.extra['configurations'] = [m[0] for m in MATRIX]
    check.extra['programs_compared'] = len(jobs)
    usimrun.judge(check, OBS, runs)
    # FIFO turn order at kernel level: the Loop's scheduling decisions against ObsK
    usimrun.judge_kernel(check, usimrun.kernel_traces(check, 600 if check.tier == 'quick' else 6000), 'C02.')
