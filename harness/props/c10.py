"""C10 - Queue: every accepted item exactly once, in order, to waiters in order."""
import usimrun

OBS = 'ObsC10'
B = dict(NFlags=1, NLocks=0, NQueues=1, Horizon=2, MaxScopes=1)
CONFIGS = [
    # producers / consumers / close at every interleaving
    ('pc', dict(B, NRoots=3, MaxActs=3, RootOps=3, TaskOps=0, Menu={'instant', 'sleep', 'put', 'get', 'qclose'})),
    # receivers interrupted by until() while waiting / holding the read mutex
    ('until', dict(B, NRoots=3, MaxActs=3, RootOps=3, TaskOps=0, MaxScopes=1,
                   Menu={'leave', 'instant', 'until_d', 'put', 'get'})),
    # receivers / producers cancelled or closed at every boundary
    ('cancel', dict(B, NRoots=1, MaxActs=3, RootOps=5, TaskOps=2,
                    Menu={'instant', 'open', 'do', 'cancel', 'raise', 'put', 'get', 'qclose'})),
    # the OWNER of the read mutex (a volatile child waiting for an item) is closed forcefully when its block is left,
    # while another receiver is queued behind it: the mutex must be handed on, the next item goes to that receiver
    ('close_owner', dict(B, NRoots=2, MaxActs=3, RootOps=6, TaskOps=1, MaxScopes=1, _full=40000,
                         Menu={'open', 'do', 'do_volatile', 'leave', 'instant', 'put', 'get'})),
]
THOROUGH = CONFIGS + [
    ('until2', dict(B, NRoots=3, MaxActs=3, RootOps=3, TaskOps=0, MaxScopes=2,
                    Menu={'leave', 'instant', 'until_d', 'until_f', 'fset', 'put', 'get'})),
    ('pc4', dict(B, NRoots=3, MaxActs=3, RootOps=4, TaskOps=0, Menu={'instant', 'put', 'get', 'qclose'})),
]


def refinement(check):
    """design level: USim refines the abstract queue QueueAbs and its read mutex refines LockAbs (TLC); Apalache
    proves the invariant of QueueAbs (every accepted item buffered or received, once, in order) inductive"""
    import core
    import os
    import shutil
    import subprocess
    import tempfile
    import time
    import tlc
    for label, consts in CONFIGS:
        if label == 'close_owner' and check.tier == 'quick':
            continue
        check.model_check('refine_' + label, 'USimRef', 'Spec', consts, ['QueueInv'],
                          properties=['QueueRefines1', 'QueueHead1', 'QueueOrder1', 'QueueClosed1', 'MutexRefines1'],
                          coverage=False)
    out = tempfile.mkdtemp(prefix='usimverif-apa-')
    try:
        for name, args in (('base', ['--init=Init', '--inv=IndInv', '--length=0']),
                           ('step', ['--init=IndInit', '--inv=IndInv', '--length=1'])):
            t0 = time.time()
            p = subprocess.run(['apalache-mc', 'check', '--out-dir=' + out] + args + ['MC_QueueAbs.tla'], cwd=tlc.SPEC_DIR,
                               stdout=subprocess.PIPE, stderr=subprocess.STDOUT, text=True, timeout=1200)
            ok = p.returncode == 0 and 'The outcome is: NoError' in p.stdout
            check.tlc_runs.append({'label': 'apalache_inductive_' + name, 'module': 'MC_QueueAbs', 'tool': 'apalache-mc',
                                   'args': args, 'outcome': 'NoError' if ok else 'Error', 'wall_s': round(time.time() - t0, 1)})
            if not ok:
                raise core.MachineryError('Apalache: IndInv of QueueAbs is not inductive (%s): %s' % (name, p.stdout[-600:]))
    finally:
        shutil.rmtree(out, ignore_errors=True)
        shutil.rmtree(os.path.join(tlc.SPEC_DIR, '_apalache-out'), ignore_errors=True)


def run(check):
    refinement(check)
    usimrun.explore(check, OBS, CONFIGS if check.tier == 'quick' else THOROUGH, random=True)
    # 3..6 receivers waiting, some leave from the middle of the waiting list, then the items arrive
    usimrun.judge(check, OBS, usimrun.waiter_runs(check, 'queue'))
