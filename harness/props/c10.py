"""C10 - Queue: every accepted item exactly once, in order, to waiters in order."""
import usimrun

OBS = 'ObsC10'
B = dict(NFlags=1, NLocks=0, NQueues=1, Horizon=2, MaxScopes=1)
CONFIGS = [
    # producers / consumers / close at every interleaving
    ('pc', dict(B, NRoots=3, MaxActs=3, RootOps=3, TaskOps=0, Menu={'instant', 'sleep', 'put', 'get', 'qclose'})),
    # receivers interrupted by until() while waiting / holding the read mutex
    ('until', dict(B, NRoots=3, MaxActs=3, RootOps=3, TaskOps=0, MaxScopes=1,
                   Menu={'leave', 'instant', 'until_d', 'put', 'get'})),
    # receivers / producers cancelled or closed at every boundary
    ('cancel', dict(B, NRoots=1, MaxActs=3, RootOps=5, TaskOps=2,
                    Menu={'instant', 'open', 'do', 'cancel', 'raise', 'put', 'get', 'qclose'})),
]
THOROUGH = CONFIGS + [
    ('until2', dict(B, NRoots=3, MaxActs=3, RootOps=3, TaskOps=0, MaxScopes=2,
                    Menu={'leave', 'instant', 'until_d', 'until_f', 'fset', 'put', 'get'})),
    ('pc4', dict(B, NRoots=3, MaxActs=3, RootOps=4, TaskOps=0, Menu={'instant', 'put', 'get', 'qclose'})),
]


def run(check):
    usimrun.explore(check, OBS, CONFIGS if check.tier == 'quick' else THOROUGH, random=True)
    # 3..6 receivers waiting, some leave from the middle of the waiting list, then the items arrive
    usimrun.judge(check, OBS, usimrun.waiter_runs(check, 'queue'))
