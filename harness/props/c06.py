"""C06: scope/task configurations of USim, witnesses replayed on the real code, verdict by ObsC06."""
import scopedom

OBS = 'ObsC06'
LABELS = {'quick': 'cancel abort graceful cancel_close cancel_nested cancel_grace cancel_wake'.split(), 'thorough': 'cancel abort graceful cancel_close cancel_nested cancel_grace cancel_wake'.split()}


def run(check):
    scopedom.run(check, OBS, LABELS[check.tier])
