"""C05: scope/task configurations of USim, witnesses replayed on the real code, verdict by ObsC05."""
import scopedom

OBS = 'ObsC05'
LABELS = {'quick': 'abort nested until supervisor'.split(), 'thorough': 'abort nested until supervisor'.split()}


def run(check):
    scopedom.run(check, OBS, LABELS[check.tier])
