"""C05: scope/task configurations of USim, witnesses replayed on the real code, verdict by ObsC05."""
import scopedom

OBS = 'ObsC05'
LABELS = {'quick': 'abort nested until'.split(), 'thorough': 'abort nested until'.split()}


def run(check):
    scopedom.run(check, OBS, LABELS[check.tier])
