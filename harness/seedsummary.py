"""Writes seeded/SUMMARY.md from the meta.json files of the confirmed seeded changes."""
import glob
import json
import os

ROOT = os.path.dirname(os.path.dirname(os.path.abspath(__file__)))


def main():
    rows = []
    for f in sorted(glob.glob(os.path.join(ROOT, 'seeded', 'C*-*', 'meta.json'))):
        m = json.load(open(f))
        own = m.get('checks', {}).get(m['breaks_property'], {})
        others = [c for c in m.get('detected_by', []) if c != m['breaks_property']]
        rows.append('| %s | %s | %s | %s | %s | %s |' % (
            m['id'], 'yes' if m.get('confirmed') else 'NO', m.get('suite_with_patch', ''),
            'DETECTED' if own.get('detected') else 'missed', ', '.join(own.get('clauses', [])[:4]),
            ', '.join(others)))
    det = sum(1 for r in rows if '| DETECTED |' in r)
    text = ['# Seeded changes', '',
            'Each directory holds `patch.diff` (apply with `git -C /repo apply`), the sub-agent\'s demonstration `demo.py` '
            '(run as `<worktree>/_mut/demo.py`), its `notes.md` (what the change is and what it needs to manifest) and '
            '`meta.json` (what was run here and which checks detect it).', '',
            '%d changes, %d confirmed, %d detected by the quick check of their own property.' % (
                len(rows), sum(1 for r in rows if '| yes |' in r), det), '',
            '| change | confirmed | repository suite with the patch | own check | clauses | also detected by |',
            '|---|---|---|---|---|---|'] + rows
    with open(os.path.join(ROOT, 'seeded', 'SUMMARY.md'), 'w') as fh:
        fh.write('\n'.join(text) + '\n')
    print('\n'.join(text[-len(rows) - 3:]))


if __name__ == '__main__':
    main()
