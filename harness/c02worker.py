"""C02 worker: executes a batch of programs in THIS process/configuration and writes the traces.

usage: c02worker.py <programs.json> <out.json> <perturb-seed>
Runs under the interpreter flags / environment of one configuration (PYTHONHASHSEED, USIM_WAITQUEUE, -O).
"""
import gc
import json
import random
import sys


def main():
    src, dst, seed = sys.argv[1], sys.argv[2], int(sys.argv[3])
    import puppet
    import storm
    puppet.install_livelock_guard()
    rng = random.Random(seed)
    with open(src) as fh:
        jobs = json.load(fh)
    out = []
    keep = []
    for job in jobs:
        if seed:
            # heap perturbation: unrelated allocations of varying size, collector on/off
            keep.append([object() for _ in range(rng.randint(0, 3000))])
            if rng.random() < 0.3:
                keep.clear()
            (gc.disable if rng.random() < 0.5 else gc.enable)()
            junk = {rng.random(): [] for _ in range(rng.randint(0, 200))}
            del junk
        log, outcome = puppet.run_program(job['prog'], nroots=job['nroots'], start=job.get('start', 0), **job.get('kw', {}))
        if job.get('rank'):
            log = storm.rankify(log)
        for e in log:
            e.pop('where', None)
        out.append(log)
    gc.enable()
    with open(dst, 'w') as fh:
        json.dump(out, fh)


if __name__ == '__main__':
    main()
