"""Parse TLC output: witness lines printed by `PrintT(<<"W", ToJson(...)>>)`."""
import json
import re

_W = re.compile(r'<<"W", "((?:[^"\\]|\\.)*)">>')


def _unescape(s):
    return s.replace('\\"', '"').replace('\\\\', '\\')


def parse_witnesses(text, limit=None, rng=None):
    """all witness lines, or a seeded sample of `limit` of them (sampled BEFORE the JSON is decoded);
    `text` is TLC output or a TLCResult of tlc.run_tlc (which has sampled the witness lines while streaming)"""
    if hasattr(text, 'witness_raw'):
        raw, total = text.witness_raw, text.witness_total
    else:
        raw = [m.group(1) for m in _W.finditer(text)]
        total = len(raw)
    if limit is not None and len(raw) > limit:
        raw = rng.sample(raw, limit)
    out, bad = [], 0
    for r in raw:
        try:
            out.append(json.loads(_unescape(r)))
        except ValueError:
            bad += 1
    parse_witnesses.total = total
    return out, bad
