"""Parse TLC output: witness lines printed by `PrintT(<<"W", ToJson(...)>>)`."""
import json
import re

_W = re.compile(r'<<"W", "((?:[^"\\]|\\.)*)">>')


def _unescape(s):
    return s.replace('\\"', '"').replace('\\\\', '\\')


def parse_witnesses(text):
    out, bad = [], 0
    for m in _W.finditer(text):
        try:
            out.append(json.loads(_unescape(m.group(1))))
        except ValueError:
            bad += 1
    return out, bad
