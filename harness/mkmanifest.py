"""Regenerates /verif/MANIFEST.json from the registry of checks that are actually built."""
import json
import os

ROOT = os.path.dirname(os.path.dirname(os.path.abspath(__file__)))
TECH = ('TLA+ spec USim model-checked by TLC; TLC-generated witness programs replayed on the real code; '
        'recorded traces validated by TLC against the TLA+ property monitor %s')

CHECKS = {
    'C09': dict(obs='ObsC09', ref='4/C09',
                text='Exhaustive TLC model check of the lock protocol inside the operational spec USim (all client programs '
                     'in the bound: contention, re-entry, until-interrupt, cancel, forced close at every activation boundary), '
                     'one witness program per distinct post-operation state replayed on the real Lock, and every recorded '
                     'trace validated by TLC against the monitor ObsC09 (mutual exclusion, FIFO grants, available, never stuck).  '
                     'Added: TLC checks that USim REFINES the abstract lock LockAbs (owner, depth, FIFO queue; USimRef.tla) with the '
                     'action properties FifoHandOff / OrderKept, Apalache proves the invariant of LockAbs inductive, and seeded '
                     'waiter storms (3..6 contenders, some leaving from the middle of the waiting list) are validated too.',
                note='Bounded: <=3 contenders, <=5 ops each, 1 lock, small horizon. Trusts TLC, the puppet harness '
                     '(public API only) and the event vocabulary; the verdict comes only from real traces rejected by ObsC09.'),
    'C03': dict(obs='ObsC03', ref='4/C03',
                text='TLC checks on every reachable state of the bounded USim configurations that the kernel model never reaches '
                     'a fault state (resuming finished activities, foreign CancelTask, signals outside their wait/scope); the '
                     'witness programs (scope aborts, nested scopes, cancellation, until, cancel racing forced close) run on the '
                     'real code and TLC validates every trace against ObsC03: how run() ended (internal exception classes, '
                     'livelock guard) and every signal seen by user code must belong to an open scope / the task itself.  Added: TLC '
                     'checks the liveness property Termination under weak fairness (no livelock in the design); random programs '
                     'over the whole vocabulary run on the real code and TLC validates their traces against the monitor AND against '
                     'the operational spec itself (USimT: every recorded trace must be a behaviour of USim).',
                note='Bounded programs; livelock is detected by an activation bound per time step in the harness; '
                     'classification of an exception as internal is by its class/arguments (harness exceptions carry integer ids).'),
    'C04': dict(obs='ObsC04', ref='4/C04',
                text='TLC model-checks containment (Contained, NoStepAfterExit) on all client programs of the bounded scope '
                     'configurations (abort, nested, graceful, until; volatile children; clean-up handlers that spawn or raise '
                     'while being closed); witness programs are replayed on the real Scope/Task code and TLC validates each real '
                     'trace against ObsC04 (no event of a task or descendant after its scope exit, every child done at exit, '
                     'graceful exit waits for non-volatile children, volatile closed last, spawn into ended scope refused).',
                note='Bounded: <=4 activities, <=2 scopes, <=5 ops. Puppets observe through the public API only.'),
    'C05': dict(obs='ObsC05', ref='4/C05',
                text='Exhaustive TLC exploration of scope failure scenarios (body/child failures incl. privileged and nested '
                     'Concurrent, failures raised in clean-up while being closed, until) with replay on the real code; TLC '
                     'validates real traces against ObsC05: outcome is none / the body\'s own exception / Concurrent with exactly '
                     'the failed direct children in order / first privileged unwrapped; exit at the time of the first failure; '
                     'all remaining children aborted.',
                note='Bounded programs; exception identity is by integer ids carried in the exception arguments.'),
    'C06': dict(obs='ObsC06', ref='4/C06',
                text='TLC explores cancel() at every activation boundary (before start, delayed start, suspended, finished, '
                     'repeated, self-cancel, racing a forced close) with awaiters and status probes; replay on the real Task; '
                     'TLC validates traces against ObsC06 (status forward-only, stable result, all awaiters agree, pre-start cancel '
                     'prevents any code, suspended cancel lands in the same time step, cancel never breaks scope/run, a task that '
                     'certainly was not runnable when cancelled does not return normally from its wait, every awaiter of a done '
                     'task is resumed).  Configurations include graceful clean-up handlers, nested tasks and two controllers '
                     'cancelling one task around a flag wake-up in one time step; the whole-vocabulary corpus is validated too.',
                note='Bounded programs. A delayed task cancelled in the very time step of its start date is treated as racing '
                     '(either outcome accepted), see DESIGN.md section 6.'),
    'C07': dict(obs='ObsC07', ref='4/C07',
                text='TLC explores until(delay)/until(flag) (already true, set/reset in one step, nested, equal deadlines) racing '
                     'with completion, children and failures; replay on the real code; TLC validates against ObsC07: block ends '
                     'no later than the trigger time, never raises its own interrupt, no owner/child code after the trigger, no '
                     'interrupt after completion, no interrupt before the trigger; until(<connective of flags>) is explored too (the monitor '
                     'evaluates the connective over the observed flag values; known finding KF-C07-until-connective).  Random programs with until-blocks on decimal float '
                     'dates entered at fractional times (dates mapped to ranks) and the whole-vocabulary corpus are validated too.',
                note='Bounded programs; notification kinds: delay, flag, date conditions (time >= d, time == d), connectives of flags.'),
    'C10': dict(obs='ObsC10', ref='4/C10',
                text='TLC explores all programs of <=3 producers/consumers on a Queue (put/get/close, until-interrupts, cancel and '
                     'forced close at every boundary, including the read-mutex hand-over); witnesses replayed on the real Queue; '
                     'TLC validates real traces against ObsC10: receives follow put order exactly once, waiting receivers served '
                     'in order, StreamClosed only after buffered items, put on closed refused, and received + drained = accepted.  Added: TLC '
                     'checks that USim REFINES the abstract queue QueueAbs (and its read mutex LockAbs) with HeadOnly / RecvOrder, '
                     'Apalache proves the invariant Exact of QueueAbs inductive; receiver storms (3..6 waiting receivers, some '
                     'leaving from the middle) are validated; items are distinct objects that compare equal.',
                note='Bounded programs, items are distinct-but-equal objects identified by an integer id. The remaining buffer is observed by a fresh consumer in a fresh simulation.'),
    'C11': dict(obs='ObsC11', ref='4/C11',
                text='TLC explores all programs of <=3 producers/consumers on a Channel (iteration with late subscription, single '
                     'await, leave, close, interrupts/cancel/close at every boundary); replay on the real Channel; TLC validates '
                     'against ObsC11: per consumer exactly the puts after its subscription, in order, once; single await gets the '
                     'first message; close semantics; nobody left waiting for a message that was put.  TLC also checks the invariant '
                     'ChannelExact on every state (each consumer buffer is the gapless run of messages it has not received yet); '
                     'messages are distinct objects that compare equal.  Added: TLC checks that USim REFINES the abstract broadcast '
                     'channel ChanAbs (Send / Close / Register / Take / Leave) with the action properties HeadOnly, Broadcast, OrderKept, '
                     'ClosedForGood; Apalache proves the invariant Exact of ChanAbs inductive (any number of messages and consumers).',
                note='Bounded programs; a consumer iterator is kept by the puppet until it stops explicitly or its generator ends.'),
    'C01': dict(obs='ObsC01', ref='4/C01',
                text='TLC checks FutureOnly/NoFault on all bounded programs of delays, date conditions (>=, ==, < incl. past, now, '
                     'equal dates), eternity/instant, delayed spawns and until(date); witnesses are replayed on the real loop, and '
                     'seeded random programs beyond TLC\'s bounds (up to 8 roots plus children, decimal float dates, many pending '
                     'dates, non-zero and negative start times) are added; TLC validates every recorded trace against ObsC01 '
                     '(clock never decreases, each timed wait resumes exactly at its date, impossible dates never resume, delayed '
                     'tasks start exactly at their date).  Kernel level: every Loop created by the repository test suite (pytest '
                     'plugin ktrace) and by random float-date / ticker / rendez-vous programs is recorded at the level of '
                     'schedule / revoke / deliver and TLC validates it against ObsK (nothing queued in the past, clock monotone, '
                     'no live activation left behind).',
                note='For float dates the expected resume date is computed by the harness with the same float addition as the '
                     'loop and all dates are mapped to their rank (TLC has no floats); integer programs are checked with the '
                     'monitor\'s own arithmetic.'),
    'C08': dict(obs='ObsC08', ref='4/C08',
                text='TLC checks NoMissedWake on all bounded programs over flags, inverse flags, task completion, time atoms and '
                     'flat connectives (value changes that revert inside one time step, several waiters); replay on the real '
                     'conditions; TLC validates real traces against ObsC08, whose own evaluator recomputes every expression from the '
                     'observed atom values: true at resume, nobody left waiting at the end of a time step in which the condition '
                     'holds, bool(c) / bool(~c) agree with boolean algebra.  Tracked resource levels with ONE and with TWO resource types '
                     '(vector comparisons: every type for >= <= > <, all equal for ==, negation for !=; set() of a subset of the types).',
                note='Nested connectives are a recorded known finding (KF-C08-nested-connective); tracked-value comparisons are '
                     'covered with the resource model (C12).'),
    'C20': dict(obs='ObsC20', ref='4/C20',
                text='TLC enumerates every listed operation in states where it can complete immediately (flag set, item buffered, '
                     'stream closed, empty scope, done task, true condition ...) next to spinner activities (`await instant` '
                     'loops); replay on the real code; TLC validates traces against ObsC20: every activity that was runnable when '
                     'an operation began has had a turn before the operation completes normally (or time advanced).',
                note='Operations that end by raising carry no obligation; leaving an until() block that is cut short by its own '
                     'interrupt, Lock entry/exit and channel iteration steps with buffered messages are not judged (DESIGN.md section 6).'),
    'C12': dict(obs='ObsC12', ref='4/C12',
                text='TLC checks Conservation / ShareBounded on all bounded programs of borrowers and claimants (waiting, nested '
                     'shares, Capacities and Resources) and explores increase/decrease/set, forced close (helper activities), '
                     'cancel and until at every boundary; replay on the real resources; TLC validates real traces against ObsC12: '
                     'levels never negative, level within [supply - everything out, supply - what the observer holds], level = '
                     'supply - held at quiescence, claims decided on entry without waiting, no borrower starved, nested <= share.  '
                     'Seeded random tear-downs of several holders of one supply (failing / interrupted / cancelled scope) while the '
                     'supply is changed, borrowed from and probed in the same time step are validated as well.  Supplies with TWO resource '
                     'types (vector levels: a borrow waits for and takes all types in one step, a claim fails if any type is '
                     'short, set() of a subset of the types) are explored with the same model and monitor.  Added: TLC checks that '
                     'USim REFINES the abstract ledger ResAbs (every step touching the level of a supply or what is owed to it is a '
                     'Take / Give / Change, or the named deviation Forfeit of the known finding; no Forfeit without interrupts; '
                     'level + owed constant where the supply is not changed); Apalache proves NonNegative of ResAbs inductive.',
                note='One or two resource names, amounts 0..2. The leak after an interrupt during acquisition/release is an open known '
                     'finding (KF-C12-interrupted-transfer); other leaks are violations.'),
    'C14': dict(obs='ObsC14', ref='4/C14',
                text='TLC checks the ticker model inside USim (interval/delay with periods incl. 0, bodies shorter/equal/longer than '
                     'the period, alone, next to other tickers and inside until) and emits witness programs; seeded random ticker '
                     'programs with dyadic periods and negative / non-zero start times are added; TLC validates the real traces '
                     'against ObsC14 (k-th tick on the grid, yields the current time, IntervalExceeded iff the body overran, delay '
                     'pauses exactly p) and against ObsC20 (other runnable activities run between iterations).  Ticker objects are '
                     'also created ahead of the time at which they are first iterated.',
                note='Periods and body durations are integers (model) or dyadic floats (random programs), so that the grid is '
                     'exact in floating point; negative periods are rejected by a separate direct call in the harness.'),
    'C16': dict(obs='ObsC16', ref='4/C16',
                text='Flow.tla enumerates every call of collect()/first() with <=3 (thorough: 4) activities x durations {0,1,2} '
                     '(ties, zero) x outcome x count {0..4, None} x consumer {prompt, slow, early break, caller cancelled}; TLC '
                     'checks the semantics operators (FlowSem) for sanity; every scenario runs on the real code and TLC validates '
                     'the trace against ObsC16, which recomputes the expected result, order and times from FlowSem: collect result '
                     'and time, failure content and time, first() order/times/count, ValueError, no loser code after the end.',
                note='Exhaustive for the stated scenario space. first() with a suspending consumer and a failing activity is an open '
                     'known finding (KF-C16-first-slow-consumer).',
                technique='TLA+ functional spec FlowSem/Flow enumerated by TLC; all scenarios replayed on the real code; traces '
                          'validated by TLC against the TLA+ monitor ObsC16'),
    'C13': dict(obs='ObsC13', ref='4/C13',
                text='PipeSem.tla defines the fluid model in exact rationals (event-driven evaluation of rates '
                     'min(limit, limit*P/sum limits)); Pipe.tla lets TLC enumerate every scenario (pipe throughput incl. unbounded, '
                     '<=2 (thorough 3) transfers x volume x limit x start x cancel date) and checks sanity properties of the '
                     'semantics; every scenario runs on the real Pipe/UnboundedPipe (transfers as tasks, cancellations by the '
                     'root or by a forced close) and TLC validates the observed start/completion/abort dates against the fluid model '
                     '(ObsC13).  A second scenario space has limits of very different magnitude (1 vs 1e17, modelled as the limit '
                     'l -> infinity).',
                note='Float dates are snapped by the harness to the rational with denominator <= 5000 within relative 1e-9 '
                     '(the property\'s "up to floating point rounding"); dates that are not representable are reported.',
                technique='TLA+ fluid semantics PipeSem evaluated by TLC for every enumerated scenario; all scenarios replayed on '
                          'the real code; observed dates validated by TLC against the TLA+ monitor ObsC13'),
    'C15': dict(obs='ObsC15', ref='4/C15',
                text='RunM.tla models run() with the per-thread loop state (assign/restore) and TLC checks Isolation for every '
                     'interleaving of enter/exit/probe steps of two threads with nested simulations (the shared-state deviation is '
                     'rejected by TLC); the harness executes every single run of one or two roots (ok, raising, returning a value, '
                     'nested run succeeding / failing and caught) and seeded random run sequences, sequentially and in 2-4 real '
                     'threads forced to overlap inside their simulations, into one lock-ordered trace; TLC validates each trace '
                     'against ObsC15 (root order and start, unchanged first exception, ActivityLeak, quiescence at return, '
                     'time.now outside/inside, outer clock after nested runs, nothing after return, no foreign loop; runs ended by '
                     '`till` with endless roots and non-zero / negative start times: nothing after the date, everything before it).',
                note='OS thread interleavings are sampled (barrier-forced overlap plus switch interval 1e-5); TLC enumerates them '
                     'only at operation granularity in RunM.',
                technique='TLA+ spec RunM model-checked by TLC; traces of real (threaded) runs validated by TLC against the TLA+ '
                          'monitor ObsC15'),
    'C17': dict(obs='ObsC17', ref='4/C17',
                text='ConcSem.tla states the matching rule over the hierarchy Exception > LookupError > {KeyError, IndexError}, '
                     'Exception > ValueError with one level of nested Concurrent; Conc.tla lets TLC enumerate all 73 710 pairs '
                     '(<=3 children incl. nested failures) x (1-2 handler items incl. nested specialisations) x (... or not) and '
                     'checks the algebraic laws (order/multiplicity irrelevant, ... widens, covariance, exact self match); for '
                     'every pair the real classes are asked (isinstance, issubclass, a real try/except, class identity, '
                     'flattened()) and TLC validates the answers against the rule (ObsC17); deep random nestings check flattened().',
                note='Exhaustive for the chosen hierarchy and sizes. The except-clause disagreement is an open known finding '
                     '(KF-C17-except-clause).',
                technique='TLA+ rule ConcSem enumerated and law-checked by TLC (Conc); every pair evaluated on the real classes; '
                          'answers validated by TLC against the TLA+ monitor ObsC17'),
    'C19': dict(obs='ObsC19', ref='4/C19',
                text='SimPySem.tla gives the sequential semantics of Container, Store, PriorityStore, FilterStore, Resource, '
                     'PriorityResource and PreemptiveResource (policy order, trigger cascade, preemption with Preempted details, '
                     'cancel/release, with-blocks); SimPy.tla lets TLC enumerate every history of <=4 (thorough 5) operations per '
                     'kind and capacity and checks the laws (capacity, conservation, each item once, nothing grantable left '
                     'pending); every history runs on the real classes, the resource is snapshot at the end of every time step, '
                     'and TLC validates each snapshot against SimPySem recomputed for the history prefix (ObsC19).',
                note='Exhaustive for the stated history space; one operation per time step, issued by one process each.',
                technique='TLA+ sequential spec SimPySem enumerated and law-checked by TLC (SimPy); all histories replayed on the '
                          'real classes; snapshots validated by TLC against the TLA+ monitor ObsC19'),
    'C18': dict(obs='ObsC18', ref='4/C18',
                text='SimPyEv.tla defines the script language of the usim.py event layer (timeouts, shared events, succeed/fail incl. a '
                     'second trigger, AllOf/AnyOf, nested conditions, waiting for processes, interrupts with causes, yielded native '
                     'notifications, run(until = None / time / event)) and TLC enumerates all 173 346 scripts of 2 processes x 2 '
                     'steps; seeded random scripts of 3 processes x 3 steps are added; every script runs on the real layer and TLC '
                     'validates the trace against ObsC18: one trigger per event, resume time/value/exception of every wait, '
                     'callbacks exactly once at the trigger time, condition fire time and members, interrupts one per yield in '
                     'call order within the same time step, nothing after until, until value, unhandled failure, nobody left waiting.',
                note='Ties inside one time step (an AnyOf member failing in the step in which another fires) are accepted either '
                     'way; the clock reading after run(until=T) is not judged (DESIGN.md section 6). A sample of the '
                     'scripts also runs embedded in a native simulation (`usim.run(env.until(..), native_activity)`) with a native '
                     'activity awaiting a SimPy event.',
                technique='TLA+ script space SimPyEv enumerated by TLC; scripts replayed on the real usim.py layer; traces validated '
                          'by TLC against the TLA+ monitor ObsC18'),
    'C02': dict(obs='ObsC02', ref='4/C02',
                text='The operational spec USim is deterministic per program (TLC explores it with the client as the only source '
                     'of choice); programs over the whole API (TLC witness programs of 8 USim configurations incl. several '
                     'comparisons on one tracked value, float-date storms, many waiting borrowers, random pipe scenarios ended by '
                     'cancel or forced close, random collect/first calls with every consumer behaviour) are executed under 8 '
                     'configurations in separate processes (PYTHONHASHSEED 0/1/random, heap perturbation with unrelated '
                     'allocations and gc on/off, USIM_WAITQUEUE heap/SD, python -O) and TLC validates the side-by-side record of '
                     'each program against ObsC02: all runs agree at every position of the trace.  Kernel level: the scheduling '
                     'decisions of every Loop of the repository test suite and of random programs (incl. rendez-vous programs: '
                     'several activities asking at different fractional times for the same absolute decimal date) are validated '
                     'by TLC against ObsK: activations of one date are delivered in the order they were queued, revoked ones '
                     'skipped, nothing delivered that was not queued for that date.',
                note='Memory layouts are sampled (seeded perturbation), not enumerated; only programs free of usage-assertion '
                     'violations are compared under -O.',
                level='model_checking'),
}


# additions of round 6 (appended to the texts above)
ROUND6 = {
    'C01': 'The timing storm also uses ONE condition object twice (awaited or watched before its date, watched again by an until-block at or after it).',
    'C03': 'Six hand-written programs with a ticker OBJECT that outlives a forcibly closed task are run (known finding KF-C03-kept-ticker-closed); the queue and channel configurations of C10 / C11 and a configuration with children whose start date or next tick lies beyond an until trigger are replayed as well.',
    'C07': 'Configuration until_late: children whose start date or next tick lies beyond the trigger while the simulation goes on past those dates (clause died_after_closing_children: what a triggered block leaves behind must be dead).',
    'C08': 'Configuration set_cut (the setter of a level is interrupted inside set / increase); at the end of a run waiting level comparisons are compared with the levels the run itself reports.',
    'C14': 'Configuration closed: tickers in children that are closed forcefully in the middle of a pause while a neighbour ticks on (clause run_died_under_ticker).',
    'C16': 'Consumers until0 / cancel0: the interrupt of the caller is already in flight when the call is made, the activities have not had a turn yet; never-started activities stay visible to the monitor until the run is over.',
    'C17': 'The scenario space includes specialisations without any named type (Concurrent[()] and Concurrent[(...,)]); a handler the library refuses to build is a violation (handler_rejected).',
    'C18': 'Scripts also run with the falsy date until=0.',
}


def main():
    props = [json.loads(l)['id'] for l in open(os.path.join(ROOT, 'properties.jsonl'))]
    checks = []
    for pid in props:
        if pid not in CHECKS:
            continue
        c = CHECKS[pid]
        checks.append({
            'property_id': pid,
            'quick_cmd': 'bin/check %s --tier quick' % pid,
            'thorough_cmd': 'bin/check %s --tier thorough' % pid,
            'evidence_file': 'evidence/%s.json' % pid,
            'replay_cmd_template': 'bin/check %s --replay {path}' % pid,
            'engine': 'tlc',
            'level_claimed': {'category': c.get('level', 'model_checking'), 'text': c['text'] + ('  Added in round 6: ' + ROUND6[pid] if pid in ROUND6 else ''),
                              'design_ref': 'DESIGN.md section ' + c['ref']},
            'level_note': c['note'],
            'technique': c.get('technique', TECH % c['obs']),
        })
    manifest = {
        'version': 1,
        'setup_cmd': 'true',
        'hooks': {
            'guard': 'USIM_VERIF_TRACE',
            'enable': 'no source hooks: checks run /venv/bin/python with PYTHONPATH=/repo and observe usim through '
                      'puppet activities (public API) and call-through wrappers installed from the harness process',
            'baseline_off_cmd': 'cd /repo && /venv/bin/python -m pytest -q -p no:cacheprovider --timeout=900',
            'source_commits': [],
            'add_only': True,
        },
        'engines': [{'name': 'tlc', 'path': 'spec/', 'serves_properties': sorted(CHECKS),
                     'kind_free_text': 'TLA+ specifications (USim operational model, ObsCnn monitors) checked with TLC 1.8; '
                                       'Python puppet harness binds them to the real code in both directions'}],
        'checks': checks,
        'not_applicable': [{'property_id': p, 'reason': 'check not built yet in this round (planned, see DESIGN.md section 4)'}
                           for p in props if p not in CHECKS],
    }
    with open(os.path.join(ROOT, 'MANIFEST.json'), 'w') as fh:
        json.dump(manifest, fh, indent=1)
    print('MANIFEST.json: %d checks, %d not claimed' % (len(checks), len(manifest['not_applicable'])))


if __name__ == '__main__':
    main()
