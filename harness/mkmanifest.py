"""Regenerates /verif/MANIFEST.json from the registry of checks that are actually built."""
import json
import os

ROOT = os.path.dirname(os.path.dirname(os.path.abspath(__file__)))
TECH = ('TLA+ spec USim model-checked by TLC; TLC-generated witness programs replayed on the real code; '
        'recorded traces validated by TLC against the TLA+ property monitor %s')

CHECKS = {
    'C09': dict(obs='ObsC09', ref='4/C09',
                text='Exhaustive TLC model check of the lock protocol inside the operational spec USim (all client programs '
                     'in the bound: contention, re-entry, until-interrupt, cancel, forced close at every activation boundary), '
                     'one witness program per distinct post-operation state replayed on the real Lock, and every recorded '
                     'trace validated by TLC against the monitor ObsC09 (mutual exclusion, FIFO grants, available, never stuck).',
                note='Bounded: <=3 contenders, <=5 ops each, 1 lock, small horizon. Trusts TLC, the puppet harness '
                     '(public API only) and the event vocabulary; the verdict comes only from real traces rejected by ObsC09.'),
}


def main():
    props = [json.loads(l)['id'] for l in open(os.path.join(ROOT, 'properties.jsonl'))]
    checks = []
    for pid in props:
        if pid not in CHECKS:
            continue
        c = CHECKS[pid]
        checks.append({
            'property_id': pid,
            'quick_cmd': 'bin/check %s --tier quick' % pid,
            'thorough_cmd': 'bin/check %s --tier thorough' % pid,
            'evidence_file': 'evidence/%s.json' % pid,
            'replay_cmd_template': 'bin/check %s --replay {path}' % pid,
            'engine': 'tlc',
            'level_claimed': {'category': c.get('level', 'model_checking'), 'text': c['text'],
                              'design_ref': 'DESIGN.md section ' + c['ref']},
            'level_note': c['note'],
            'technique': c.get('technique', TECH % c['obs']),
        })
    manifest = {
        'version': 1,
        'setup_cmd': 'true',
        'hooks': {
            'guard': 'USIM_VERIF_TRACE',
            'enable': 'no source hooks: checks run /venv/bin/python with PYTHONPATH=/repo and observe usim through '
                      'puppet activities (public API) and call-through wrappers installed from the harness process',
            'baseline_off_cmd': 'cd /repo && /venv/bin/python -m pytest -q -p no:cacheprovider --timeout=900',
            'source_commits': [],
            'add_only': True,
        },
        'engines': [{'name': 'tlc', 'path': 'spec/', 'serves_properties': sorted(CHECKS),
                     'kind_free_text': 'TLA+ specifications (USim operational model, ObsCnn monitors) checked with TLC 1.8; '
                                       'Python puppet harness binds them to the real code in both directions'}],
        'checks': checks,
        'not_applicable': [{'property_id': p, 'reason': 'check not built yet in this round (planned, see DESIGN.md section 4)'}
                           for p in props if p not in CHECKS],
    }
    with open(os.path.join(ROOT, 'MANIFEST.json'), 'w') as fh:
        json.dump(manifest, fh, indent=1)
    print('MANIFEST.json: %d checks, %d not claimed' % (len(checks), len(manifest['not_applicable'])))


if __name__ == '__main__':
    main()
