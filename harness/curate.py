"""Confirm every seeded change delivered by the sub-agents and file it under seeded/<id>/.

For each patch: apply to a scratch worktree of /repo's HEAD; the repository suite must still pass; the agent's
demonstration must fail with the patch and pass without it; then the registered quick check of the property
(and optionally others) is run against the scratch worktree.  Writes seeded/<Cnn>-<n>/{patch.diff,demo.py,meta.json}.
"""
import json
import os
import shutil
import subprocess
import sys
import tempfile

ROOT = os.path.dirname(os.path.dirname(os.path.abspath(__file__)))
INBOX = os.path.join(ROOT, 'seeded', os.environ.get('CURATE_INBOX', '_inbox'))
OFFSET = int(os.environ.get('CURATE_OFFSET', '0'))       # round 2 is filed as <Cnn>-3, <Cnn>-4
EXTRA = {'C02-8': ['C09', 'C10'], 'C15-10': ['C01'], 'C08-10': ['C12'], 'C01-4': ['C07'], 'C20-3': ['C14'], 'C06-3': ['C03'], 'C16-4': ['C04'], 'C04-4': ['C05'],
         'C05-2': ['C04'], 'C06-1': ['C03'], 'C06-2': ['C03'], 'C07-1': ['C03'], 'C07-2': ['C04'], 'C04-1': ['C07'],
         'C16-1': ['C04'], 'C03-1': ['C07'], 'C14-1': ['C20']}


def sh(cmd, cwd=None, env=None, timeout=3000):
    p = subprocess.run(cmd, cwd=cwd, env=env, stdout=subprocess.PIPE, stderr=subprocess.STDOUT, text=True, timeout=timeout)
    return p.returncode, p.stdout


def main():
    only = sys.argv[1:]
    head = sh(['git', '-C', '/repo', 'rev-parse', '--short', 'HEAD'])[1].strip()
    for prop in sorted(os.listdir(INBOX)):
        d = os.path.join(INBOX, prop)
        if not os.path.isdir(d):
            continue
        for n in (1, 2):
            sid = '%s-%d' % (prop, n + OFFSET)
            if only and sid not in only and prop not in only:
                continue
            patch = os.path.join(d, 'patch%d.rebased.diff' % n)
            rebased = os.path.exists(patch)
            if not rebased:
                patch = os.path.join(d, 'patch%d.diff' % n)
            demo = os.path.join(d, 'demo%d.py' % n)
            wt = tempfile.mkdtemp(prefix='usim-cur-')
            os.rmdir(wt)
            meta = {'id': sid, 'breaks_property': prop, 'repo_head': head, 'rebased_onto_fixes': rebased}
            try:
                sh(['git', '-C', '/repo', 'worktree', 'add', '--detach', wt, 'HEAD'])
                env = dict(os.environ, PYTHONDONTWRITEBYTECODE='1')
                # the demonstrations locate the library relative to their own place: <worktree>/_mut/demoN.py
                os.makedirs(os.path.join(wt, '_mut'), exist_ok=True)
                local = os.path.join(wt, '_mut', os.path.basename(demo))
                shutil.copy(demo, local)
                rc0, out0 = sh(['/venv/bin/python', local], cwd=wt, env=env)
                rc, out = sh(['git', '-C', wt, 'apply', patch])
                if rc:
                    meta['status'] = 'patch does not apply to the repaired tree'
                    print(sid, meta['status'], flush=True)
                    continue
                rct, outt = sh(['/venv/bin/python', '-m', 'pytest', '-q', '-p', 'no:cacheprovider', '--timeout=900'], cwd=wt, env=env)
                tail = outt.strip().splitlines()[-1] if outt.strip() else ''
                rc1, out1 = sh(['/venv/bin/python', local], cwd=wt, env=env)
                meta.update({'suite_with_patch': tail, 'suite_passes': rct == 0,
                             'demo_without_patch_exit': rc0, 'demo_with_patch_exit': rc1,
                             'demo_output_with_patch': out1.strip().splitlines()[-3:]})
                meta['confirmed'] = rct == 0 and rc0 == 0 and rc1 != 0
                detect = {}
                for chk in [prop] + EXTRA.get(sid, []):
                    outdir = tempfile.mkdtemp(prefix='usim-curout-')
                    e2 = dict(os.environ, VERIF_REPO=wt, VERIF_OUT=outdir)
                    rcc, outc = sh([os.path.join(ROOT, 'bin', 'check'), chk, '--tier', 'quick'], env=e2)
                    clauses = sorted(set(l.split('clause=')[1] for l in outc.splitlines() if l.startswith('VIOLATION')))
                    detect[chk] = {'exit': rcc, 'detected': rcc == 1, 'clauses': clauses}
                    shutil.rmtree(outdir, ignore_errors=True)
                meta['checks'] = detect
                meta['detected_by'] = sorted(c for c, v in detect.items() if v['detected'])
                notes = os.path.join(d, 'notes.md')
                meta['needs_to_manifest'] = 'see notes.md (written by the sub-agent that seeded the change)'
                meta['ran'] = ['git apply patch.diff (scratch worktree of /repo HEAD %s)' % head,
                               '/venv/bin/python -m pytest -q -p no:cacheprovider --timeout=900',
                               '/venv/bin/python demo.py (with and without the patch)',
                               'VERIF_REPO=<worktree> bin/check <Cnn> --tier quick']
                dst = os.path.join(ROOT, 'seeded', sid)
                os.makedirs(dst, exist_ok=True)
                shutil.copy(patch, os.path.join(dst, 'patch.diff'))
                shutil.copy(demo, os.path.join(dst, 'demo.py'))
                if os.path.exists(notes):
                    shutil.copy(notes, os.path.join(dst, 'notes.md'))
                with open(os.path.join(dst, 'meta.json'), 'w') as fh:
                    json.dump(meta, fh, indent=1)
                print(sid, 'confirmed' if meta['confirmed'] else 'NOT-CONFIRMED', tail, 'demo', rc0, rc1,
                      'detected_by', meta['detected_by'], flush=True)
            finally:
                sh(['git', '-C', '/repo', 'worktree', 'remove', '--force', wt])
                shutil.rmtree(wt, ignore_errors=True)


if __name__ == '__main__':
    main()
