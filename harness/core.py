"""
Shared pipeline of the checks:

  1. model-check the TLA+ spec (design level) with TLC             -> states / transitions
  2. let TLC emit witness programs (USimW) or simulate             -> programs
  3. execute the programs on the REAL usim (puppets)               -> real traces, drift vs model
  4. let TLC validate the real traces against the property monitor -> verdict

Verdict rule: VIOLATION only if TLC rejects a trace recorded from the real code
against the property monitor (ObsCnn).  Drift from the operational model is
reported in the evidence, never as an alarm.
"""
import hashlib
import json
import os
import sys
import tempfile
import time
import shutil

import tlc
from witness import parse_witnesses

ROOT = os.path.dirname(os.path.dirname(os.path.abspath(__file__)))
# mutant runs redirect evidence/replay output so that they never touch the committed evidence
OUT = os.environ.get('VERIF_OUT', ROOT)
FINDINGS = os.path.join(ROOT, 'known_findings.json')


def load_findings():
    try:
        with open(FINDINGS) as fh:
            return json.load(fh)
    except FileNotFoundError:
        return {'open': [], 'fixed': []}


class MachineryError(Exception):
    pass


class Check:
    def __init__(self, prop, tier, seed, level='model_checking'):
        self.prop, self.tier, self.seed, self.level = prop, tier, seed, level
        self.t0 = time.time()
        self.tlc_runs = []
        self.states = 0
        self.transitions = 0
        self.traces_validated = 0
        self.events_validated = 0
        self.programs = 0
        self.drift = 0
        self.drift_samples = []
        self.samples = []
        self.violations = []      # (clause, replay_path)
        self.known_hits = []
        self.notes = []
        self.assumptions = []
        self.extra = {}
        self.tmp = tempfile.mkdtemp(prefix='usimverif-')

    # ------------------------------------------------------------------ TLC: design level
    def model_check(self, label, module, spec, consts, invariants, properties=(), coverage=True,
                    timeout=3000, constraint=None, workers=16):
        cfg = os.path.join(self.tmp, 'mc_%s.cfg' % label)
        tlc.write_cfg(cfg, spec, consts, invariants=invariants, properties=properties, constraint=constraint)
        r = tlc.run_tlc(module, cfg, coverage=coverage, timeout=timeout, workers=workers)
        rec = {'label': label, 'module': module, 'constants': _jsonable(consts), 'invariants': list(invariants),
               'properties': list(properties), 'generated': r.generated, 'distinct': r.distinct,
               'depth': r.depth, 'complete': r.complete, 'wall_s': round(r.wall, 1)}
        if r.coverage:
            rec['actions_never_taken'] = sorted(a for a, (d, g) in r.coverage.items() if g == 0)
            rec['action_counts'] = {a: g for a, (d, g) in sorted(r.coverage.items())}
        self.tlc_runs.append(rec)
        self.states += r.distinct
        self.transitions += r.generated
        if r.violated or r.errors:
            sys.stderr.write(r.out[-6000:])
            raise MachineryError('TLC run %s on %s failed: %s' % (label, module, (r.violated or r.errors)[:3]))
        return r

    def simulate(self, label, module, spec, consts, invariants, num, depth, timeout=3000):
        """TLC simulation mode: `num` random behaviours per worker of length <= depth, invariants on every state"""
        import re
        cfg = os.path.join(self.tmp, 'sim_%s.cfg' % label)
        tlc.write_cfg(cfg, spec, consts, invariants=invariants)
        r = tlc.run_tlc(module, cfg, timeout=timeout, simulate='num=%d' % num, depth=depth, workers=16)
        m = re.search(r'The number of states generated: (\d+)', r.out)
        n = int(m.group(1)) if m else 0
        t = re.findall(r'(\d+) traces generated', r.out)
        self.tlc_runs.append({'label': label, 'module': module, 'mode': 'simulation', 'constants': _jsonable(consts),
                              'invariants': list(invariants), 'behaviours': int(t[-1]) if t else 0, 'max_depth': depth,
                              'states_checked': n, 'wall_s': round(r.wall, 1)})
        self.transitions += n
        if r.violated or r.errors or not n:
            sys.stderr.write(r.out[-6000:])
            raise MachineryError('TLC simulation %s on %s failed: %s' % (label, module, (r.violated or r.errors)[:3]))
        return r

    # ------------------------------------------------------------------ TLC: witnesses
    def witnesses(self, label, consts, module='USimW', spec='SpecW', emit='Emit', timeout=3000,
                  invariants=(), coverage=False, limit=None):
        """one TLC run: checks the design-level invariants on every state AND prints witness programs"""
        cfg = os.path.join(self.tmp, 'w_%s.cfg' % label)
        tlc.write_cfg(cfg, spec, consts, invariants=list(invariants) + [emit], view='View')
        import random
        r = tlc.run_tlc(module, cfg, timeout=timeout, coverage=coverage, witness_limit=limit, rng=random.Random(self.seed))
        if r.violated:
            sys.stderr.write(r.out[-6000:])
            raise MachineryError('TLC run %s: the MODEL violates %s' % (label, r.violated))
        if r.errors:
            sys.stderr.write(r.out[-6000:])
            raise MachineryError('witness generation %s failed: %s' % (label, r.errors[:3]))
        import random
        ws, bad = parse_witnesses(r, limit=limit, rng=random.Random(self.seed))
        total = r.witness_total
        self.tlc_runs.append({'label': label, 'module': module, 'constants': _jsonable(consts),
                              'witnesses_emitted': total,
                              'invariants_checked': list(invariants), 'complete': r.complete,
                              'actions_never_taken': sorted(a for a, (d, g) in r.coverage.items() if g == 0),
                              'generated': r.generated, 'distinct': r.distinct, 'witness_programs': len(ws),
                              'unparsable_witness_lines': bad, 'wall_s': round(r.wall, 1)})
        self.states += r.distinct
        self.transitions += r.generated
        return ws

    # ------------------------------------------------------------------ TLC: trace validation
    def validate(self, obs_module, traces, label='obs', timeout=3000, chunk=8000, parallel=4, spec='Spec', consts=None):
        """traces: list of event lists recorded from the real code.  Returns [(index, clause, pos)]"""
        from concurrent.futures import ThreadPoolExecutor
        cfg = os.path.join(self.tmp, 'obs_%s.cfg' % label)
        tlc.write_cfg(cfg, spec, {}, invariants=['Report'])
        if consts:
            with open(cfg) as fh:
                text = fh.read()
            with open(cfg, 'w') as fh:
                fh.write(text.replace('SPECIFICATION %s\n' % spec, 'SPECIFICATION %s\nCONSTANTS\n%s\n' % (spec, '\n'.join('  %s = %s' % (k, tlc.tla_value(v)) for k, v in consts.items()))))

        # chunks of at most `chunk` traces and roughly 30 MB of JSON (TLC's Json module fails on very large files);
        # the size per trace is estimated from a sample
        step = max(1, len(traces) // 200)
        sample = traces[::step][:200]
        avg = (sum(len(json.dumps(t)) for t in sample) / len(sample)) if sample else 1
        per = max(1, min(chunk, int(30_000_000 / max(avg, 1))))
        bounds = [(lo, min(lo + per, len(traces))) for lo in range(0, len(traces), per)]

        def one(b):
            lo, hi = b
            part = traces[lo:hi]
            path = os.path.join(self.tmp, 'traces_%s_%d.json' % (label, lo))
            with open(path, 'w') as fh:
                try:
                    fh.write(json.dumps({'traces': part}, allow_nan=False))
                except ValueError:      # infinite dates (eternity) are not JSON: hand them to TLC as strings
                    fh.seek(0)
                    fh.truncate()
                    fh.write(json.dumps({'traces': _finite(part)}, allow_nan=False))
                    if not any('non-finite' in n for n in self.notes):
                        bad = [e for t in part for e in t if _finite(e) != e][:1]
                        self.notes.append('non-finite dates in recorded traces are passed to TLC as strings, e.g. %r' % bad)
            r = tlc.run_tlc(obs_module, cfg, env={'TRACE_FILE': path}, timeout=timeout, workers=4, heap='4g')
            if not r.errors:
                # the verdict lines of several TLC workers can interleave on stdout: if the number of states does not
                # add up with the verdicts that could be parsed, the chunk is validated again by a single worker
                vs, _ = _parse_v(r.out)
                if r.distinct + sum(len(part[tid - 1]) - pos for tid, _, pos in vs if 0 < tid <= len(part)) != sum(len(t) + 1 for t in part):
                    r = tlc.run_tlc(obs_module, cfg, env={'TRACE_FILE': path}, timeout=timeout, workers=1, heap='4g')
            if r.errors and os.environ.get('VERIF_KEEP'):
                shutil.copy(path, os.environ['VERIF_KEEP'])
            os.unlink(path)
            return lo, part, r

        rejected = []
        with ThreadPoolExecutor(parallel) as ex:
            results = list(ex.map(one, bounds))
        for lo, part, r in results:
            if r.errors:
                sys.stderr.write(r.out[-6000:])
                raise MachineryError('trace validation with %s failed: %s' % (obs_module, r.errors[:3]))
            vs, _ = _parse_v(r.out)
            expected = sum(len(t) + 1 for t in part)
            got = r.distinct + sum(len(part[tid - 1]) - pos for tid, _, pos in vs)
            if got != expected:
                raise MachineryError('%s consumed %d states, expected %d (traces not fully read)'
                                     % (obs_module, got, expected))
            for tid, clause, pos in vs:
                rejected.append((lo + tid - 1, clause, pos))
            self.traces_validated += len(part)
            self.events_validated += sum(len(t) for t in part)
            self.tlc_runs.append({'label': label + ':' + obs_module, 'module': obs_module, 'traces': len(part),
                                  'distinct': r.distinct, 'rejected': len(vs), 'wall_s': round(r.wall, 1)})
        return rejected

    # ------------------------------------------------------------------ verdicts
    def report(self, clause, program, trace, pos, extra=None):
        """a real trace was rejected by the monitor: known finding or violation"""
        sig = {'property': self.prop, 'clause': clause}
        for f in load_findings().get('open', []):
            if f['property'] == self.prop and f['clause'] == clause and _match(f.get('match', {}), program, trace, pos):
                if f['id'] not in [k['id'] for k in self.known_hits]:
                    self.known_hits.append({'id': f['id'], 'what': f['what'], 'count': 1})
                else:
                    [k for k in self.known_hits if k['id'] == f['id']][0]['count'] += 1
                return
        os.makedirs(os.path.join(OUT, 'replay'), exist_ok=True)
        body = {'property': self.prop, 'clause': clause, 'position': pos, 'program': program,
                'trace': trace, 'extra': extra or {'NRoots': getattr(self, 'nroots_hint', None)}}
        h = hashlib.sha1(json.dumps(body, sort_keys=True, default=str).encode()).hexdigest()[:10]
        path = os.path.join('replay', '%s-%s.json' % (self.prop, h))
        if len(self.violations) < 25:
            with open(os.path.join(OUT, path), 'w') as fh:
                json.dump(body, fh, indent=1, default=str)
        self.violations.append((clause, path))

    def finish(self):
        wall = time.time() - self.t0
        if self.traces_validated == 0:
            # a run that validated no execution of the real code has decided nothing: never report it as "held"
            print('MACHINERY-ERROR %s: no trace of the real code was validated' % self.prop)
            shutil.rmtree(self.tmp, ignore_errors=True)
            return 2
        cov = {
            'states': self.states, 'transitions': self.transitions,
            'traces_validated_against_impl': self.traces_validated,
            'events_validated_against_impl': self.events_validated,
            'programs': self.programs,
            'drift_programs': self.drift, 'drift_samples': self.drift_samples[:3],
            'samples': self.samples[:5] or ['(none)'],
            'tlc_runs': self.tlc_runs,
            'known_findings_hit': self.known_hits,
            'violating_clauses': sorted(set(c for c, _ in self.violations)),
            'notes': self.notes,
        }
        cov.update(self.extra)
        ev = {'property_id': self.prop, 'tier': self.tier, 'seed': self.seed, 'level': self.level,
              'coverage': cov, 'assumptions': self.assumptions, 'wall_s': round(wall, 1),
              'violations': len(self.violations)}
        os.makedirs(os.path.join(OUT, 'evidence'), exist_ok=True)
        with open(os.path.join(OUT, 'evidence', self.prop + '.json'), 'w') as fh:
            json.dump(ev, fh, indent=1, default=str)
        shutil.rmtree(self.tmp, ignore_errors=True)
        for k in self.known_hits:
            print('KNOWN-FINDING: property=%s %s (%d traces)' % (self.prop, k['what'], k['count']))
        seen = set()
        for clause, path in self.violations:
            if clause in seen:
                continue
            seen.add(clause)
            print('VIOLATION property=%s replay=%s clause=%s' % (self.prop, path, clause))
        print('%s %s: %d states, %d real traces validated, %d programs, drift %d, %d violations, %.0fs'
              % (self.prop, self.tier, self.states, self.traces_validated, self.programs, self.drift,
                 len(self.violations), wall))
        return 1 if self.violations else 0


def apalache_inductive(check, module, what):
    """Apalache: Init => IndInv (length 0) and IndInv /\\ Next => IndInv' (length 1) for the wrapper `module`"""
    import shutil
    import subprocess
    out = tempfile.mkdtemp(prefix='usimverif-apa-')
    try:
        for name, args in (('base', ['--init=Init', '--inv=IndInv', '--length=0']),
                           ('step', ['--init=IndInit', '--inv=IndInv', '--length=1'])):
            t0 = time.time()
            p = subprocess.run(['apalache-mc', 'check', '--out-dir=' + out] + args + [module + '.tla'], cwd=tlc.SPEC_DIR,
                               stdout=subprocess.PIPE, stderr=subprocess.STDOUT, text=True, timeout=1200)
            ok = p.returncode == 0 and 'The outcome is: NoError' in p.stdout
            check.tlc_runs.append({'label': 'apalache_inductive_' + name, 'module': module, 'tool': 'apalache-mc',
                                   'args': args, 'outcome': 'NoError' if ok else 'Error', 'wall_s': round(time.time() - t0, 1)})
            if not ok:
                raise MachineryError('Apalache: IndInv of %s is not inductive (%s): %s' % (what, name, p.stdout[-600:]))
    finally:
        shutil.rmtree(out, ignore_errors=True)
        shutil.rmtree(os.path.join(tlc.SPEC_DIR, '_apalache-out'), ignore_errors=True)


def _match(m, program, trace, pos):
    """known-finding matcher: every key of `m` must hold for the rejected trace"""
    text = json.dumps(program, sort_keys=True, default=str)
    for needle in m.get('program_contains', []):
        if needle not in text:
            return False
    if 'event_at' in m:
        e = trace[pos - 1] if 0 < pos <= len(trace) else {}
        for k, v in m['event_at'].items():
            if e.get(k) != v:
                return False
    return True


def _parse_v(out):
    import re
    vs = []
    for m in re.finditer(r'<<"V", (\d+), "([^"]*)", (\d+)>>', out):
        vs.append((int(m.group(1)), m.group(2), int(m.group(3))))
    return vs, len(vs)


def _jsonable(c):
    return {k: (sorted(v, key=str) if isinstance(v, (set, frozenset)) else v) for k, v in c.items()}


def _finite(x):
    if isinstance(x, float) and (x != x or x in (float('inf'), float('-inf'))):
        return 'nan' if x != x else ('inf' if x > 0 else '-inf')
    if isinstance(x, dict):
        return {k: _finite(v) for k, v in x.items()}
    if isinstance(x, (list, tuple)):
        return [_finite(v) for v in x]
    return x


def replay_file(path, obs_module, prop):
    """re-execute the program of a replay file on the real code and re-validate it with TLC"""
    import usimrun
    import puppet
    with open(path) as fh:
        body = json.load(fh)
    nroots = (body.get('extra') or {}).get('NRoots') or sum(1 for ops in body['program'] if ops) or 1
    extra = body.get('extra') or {}
    log, outcome = puppet.run_program(body['program'], nroots=extra.get('NRoots', len(body['program'])),
                                      **(extra.get('world') or {}))
    check = Check(prop, 'quick', 0)
    rej = check.validate(obs_module, [log], label='replay')
    shutil.rmtree(check.tmp, ignore_errors=True)
    for e in log:
        print(json.dumps(e))
    if rej:
        print('VIOLATION property=%s replay=%s clause=%s at event %d' % (prop, path, rej[0][1], rej[0][2]))
        return 1
    print('replay of %s: trace accepted by %s' % (path, obs_module))
    return 0
