"""Developer tool: run a random whole-vocabulary corpus (storm.usim_program) on the real code and push the traces
through a list of monitors; rejected traces are saved under $OUT for inspection.  Not a registered check."""
import json
import os
import random
import sys

sys.path.insert(0, os.path.dirname(os.path.abspath(__file__)))
import core
import storm
import usimrun


def corpus(seed, n):
    return [storm.usim_program(random.Random('%d/%d' % (seed, i)))['roots'] for i in range(n)]


def run(progs):
    usimrun.WORLD.clear()
    usimrun.WORLD.update(usimrun.world_args(storm.BIG))
    try:
        return [r[0] for r in usimrun.run_many(progs, storm.BIG["NRoots"])]
    finally:
        usimrun.WORLD.clear()


if __name__ == '__main__':
    seed, n = int(sys.argv[1]), int(sys.argv[2])
    mons = sys.argv[3:]
    progs = corpus(seed, n)
    traces = run(progs)
    out = os.environ.get('OUT', '/tmp/m')
    chk = core.Check('C00', 'quick', seed=seed)
    for m in mons:
        try:
            rej = chk.validate(m, traces, label=m)
        except core.MachineryError as e:
            print(m, 'MACHINERY', str(e)[:300])
            continue
        by = {}
        for i, c, p in rej:
            by.setdefault(c, []).append(i)
        print(m, len(rej), {c: len(v) for c, v in by.items()})
        for c, v in by.items():
            i = v[0]
            pos = [p for j, cc, p in rej if j == i][0]
            with open(os.path.join(out, 'rej_%s_%s.json' % (m, c)), 'w') as fh:
                json.dump({'clause': c, 'pos': pos, 'prog': progs[i], 'trace': traces[i], 'index': i, 'all': v}, fh)
