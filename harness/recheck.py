"""Re-run the quick check of its own property (and any further checks named) against filed seeded changes, and update
their meta.json - used after the checks have been strengthened.

usage: recheck.py <Cnn-k> [<Cnn-k> ...] [--also=Cmm,Cpp]
"""
import json
import os
import shutil
import subprocess
import sys
import tempfile

ROOT = os.path.dirname(os.path.dirname(os.path.abspath(__file__)))


def main():
    ids = [a for a in sys.argv[1:] if not a.startswith('--')]
    also = []
    for a in sys.argv[1:]:
        if a.startswith('--also='):
            also = a.split('=')[1].split(',')
    head = subprocess.run(['git', '-C', ROOT, 'rev-parse', '--short', 'HEAD'], stdout=subprocess.PIPE, text=True).stdout.strip()
    for sid in ids:
        d = os.path.join(ROOT, 'seeded', sid)
        meta = json.load(open(os.path.join(d, 'meta.json')))
        wt = tempfile.mkdtemp(prefix='usim-re-')
        os.rmdir(wt)
        try:
            subprocess.run(['git', '-C', '/repo', 'worktree', 'add', '--detach', wt, 'HEAD'], check=True,
                           stdout=subprocess.DEVNULL, stderr=subprocess.DEVNULL)
            if subprocess.run(['git', '-C', wt, 'apply', os.path.join(d, 'patch.diff')]).returncode:
                print(sid, 'PATCH-DOES-NOT-APPLY', flush=True)
                continue
            for chk in [meta['breaks_property']] + also:
                out = tempfile.mkdtemp(prefix='usim-reout-')
                env = dict(os.environ, VERIF_REPO=wt, VERIF_OUT=out)
                p = subprocess.run([os.path.join(ROOT, 'bin', 'check'), chk, '--tier', 'quick'], env=env,
                                   stdout=subprocess.PIPE, stderr=subprocess.STDOUT, text=True)
                clauses = sorted(set(l.split('clause=')[1] for l in p.stdout.splitlines() if l.startswith('VIOLATION')))
                meta.setdefault('checks', {})[chk] = {'exit': p.returncode, 'detected': p.returncode == 1, 'clauses': clauses}
                shutil.rmtree(out, ignore_errors=True)
            meta['detected_by'] = sorted(c for c, v in meta['checks'].items() if v['detected'])
            meta['rechecked_with_verif'] = head
            with open(os.path.join(d, 'meta.json'), 'w') as fh:
                json.dump(meta, fh, indent=1)
            print(sid, 'detected_by', meta['detected_by'], {c: v['clauses'][:3] for c, v in meta['checks'].items()}, flush=True)
        finally:
            subprocess.run(['git', '-C', '/repo', 'worktree', 'remove', '--force', wt], stdout=subprocess.DEVNULL,
                           stderr=subprocess.DEVNULL)
            shutil.rmtree(wt, ignore_errors=True)


if __name__ == '__main__':
    main()
