"""C18: run one script of SimPy processes on the real usim.py layer and record what every process observes."""
import sys

sys.unraisablehook = lambda *a: None


class EvFail(Exception):
    pass


def run_script(sc, embedded=False):
    import usim
    from usim.py import Environment, Interrupt
    env = Environment()
    trace = [{'e': 'sc', 'until': sc['until'], 'procs': sc['procs'], 'defuse': bool(sc.get('defuse')), 'uz': bool(sc.get('uz'))}]
    events = {1: env.event(), 2: env.event()}
    procs = {}

    def now():
        t = env.now
        return int(t) if t == int(t) else t

    for eid, evt in events.items():
        evt.callbacks.append(lambda _e, eid=eid: trace.append({'e': 'cb', 'ev': eid, 't': now()}))
    if sc.get('defuse'):
        # the SimPy supervision idiom: a callback takes care of the failure of the event
        events[1].callbacks.append(lambda evt: setattr(evt, 'defused', True))

    def val(v):
        if v is None:
            return [0]
        if isinstance(v, int):
            return [v]
        try:
            return sorted(x for x in list(v.values()) if isinstance(x, int))      # ConditionValue
        except Exception:
            return [0]

    def proc(i, steps):
        for j, st in enumerate(steps):
            kind = st[0]
            try:
                if kind == 'succ':
                    try:
                        events[st[1]].succeed(st[2])
                        trace.append({'e': 'act', 'p': i, 'kind': 'succ', 'tgt': st[1], 'v': st[2], 't': now(), 'err': False})
                    except RuntimeError:
                        trace.append({'e': 'act', 'p': i, 'kind': 'succ', 'tgt': st[1], 'v': st[2], 't': now(), 'err': True})
                    continue
                if kind == 'fail':
                    try:
                        events[st[1]].fail(EvFail(st[1]))
                        trace.append({'e': 'act', 'p': i, 'kind': 'fail', 'tgt': st[1], 'v': 0, 't': now(), 'err': False})
                    except RuntimeError:
                        trace.append({'e': 'act', 'p': i, 'kind': 'fail', 'tgt': st[1], 'v': 0, 't': now(), 'err': True})
                    continue
                if kind == 'intr':
                    trace.append({'e': 'act', 'p': i, 'kind': 'intr', 'tgt': st[1], 'v': st[2], 't': now(), 'err': False})
                    procs[st[1]].interrupt(st[2])
                    continue
                if kind == 'to':
                    target = env.timeout(st[1], value=st[2])
                elif kind == 'wait':
                    target = events[st[1]]
                elif kind == 'all':
                    target = env.timeout(st[1], value=st[1] + 5) & env.timeout(st[2], value=st[2] + 5)
                elif kind == 'any':
                    target = env.timeout(st[1], value=st[1] + 5) | events[st[2]]
                elif kind == 'nest':
                    target = (env.timeout(st[1], value=st[1] + 5) | env.timeout(st[2], value=st[2] + 5)) \
                        & env.timeout(st[3], value=st[3] + 5)
                elif kind == 'nest2':
                    target = (env.timeout(st[1], value=st[1] + 5) & env.timeout(st[2], value=st[2] + 5)) \
                        | env.timeout(st[3], value=st[3] + 5)
                elif kind == 'dall':
                    # the same event listed twice in one condition
                    t1, t2 = env.timeout(st[1], value=st[1] + 5), env.timeout(st[2], value=st[2] + 5)
                    target = env.all_of([t1, t2, t1])
                elif kind == 'dwait':
                    target = events[st[1]] & events[st[1]]
                elif kind == 'proc':
                    target = procs[st[1]]
                elif kind == 'native':
                    target = usim.time + st[1]
                trace.append({'e': 'y', 'p': i, 'i': j + 1, 'k': st, 't': now()})
                got = yield target
                trace.append({'e': 'res', 'p': i, 'i': j + 1, 'how': 'ok', 'v': val(got), 't': now()})
            except Interrupt as intr:
                trace.append({'e': 'res', 'p': i, 'i': j + 1, 'how': 'intr', 'cause': intr.cause, 't': now()})
            except EvFail:
                trace.append({'e': 'res', 'p': i, 'i': j + 1, 'how': 'exc', 'v': [], 't': now()})
        trace.append({'e': 'pend', 'p': i, 'v': 10 * i, 't': now()})
        return 10 * i

    for i, steps in enumerate(sc['procs']):
        procs[i + 1] = env.process(proc(i + 1, steps))
    until = sc['until']

    async def native_waiter():
        # a native usim activity that waits for SimPy event 1 (embedded mode)
        trace.append({'e': 'y', 'p': 9, 'i': 1, 'k': ['wait', 1], 't': now()})
        try:
            got = await events[1]
            trace.append({'e': 'res', 'p': 9, 'i': 1, 'how': 'ok', 'v': val(got), 't': now()})
        except EvFail:
            trace.append({'e': 'res', 'p': 9, 'i': 1, 'how': 'exc', 'v': [], 't': now()})
    waiters1 = embedded or any(st[0] in ('wait', 'dwait') and st[1] == 1 or st[0] == 'any' and st[2] == 1 for steps in sc['procs'] for st in steps)
    try:
        if embedded:
            # the environment runs inside a native simulation next to a native activity
            usim.run(env.until(0 if sc.get('uz') else None if until == 0 else until), native_waiter())
            out = None
        elif sc.get('uz'):          # a numeric `until` that happens to be falsy: the current time, zero
            out = env.run(until=0)
        elif until == 0:
            out = env.run()
        elif until < 10:
            out = env.run(until=until)
        else:
            out = env.run(until=events[until - 10])
        outcome = {'k': 'ok', 'v': out if isinstance(out, int) else 0}
    except BaseException as err:
        outcome = {'k': 'exc', 'cls': type(err).__name__, 'v': 0}
    trace.append({'e': 'run_end', 't': now(), 'out': outcome, 'waiters1': waiters1})
    return trace


def random_script(rng, np_=3, ns=3):
    """scripts beyond the enumerated bound: 3 processes x 3 steps, nested conditions, several interrupts"""
    def step(i, n):
        others = [k for k in range(1, n + 1) if k != i]
        kinds = ['to', 'to', 'wait', 'succ', 'fail', 'all', 'any', 'nest', 'nest2', 'native', 'dall', 'dwait']
        if others:
            kinds += ['proc', 'intr', 'intr']
        k = rng.choice(kinds)
        if k == 'to':
            d = rng.choice([0, 1, 2])
            return ['to', d, d + 5]
        if k == 'wait':
            return ['wait', rng.choice([1, 2])]
        if k == 'succ':
            return ['succ', rng.choice([1, 2]), 7]
        if k == 'fail':
            return ['fail', 1]
        if k == 'all':
            return ['all', rng.choice([1, 2]), rng.choice([1, 2])]
        if k == 'dall':
            return ['dall', rng.choice([1, 2, 3]), rng.choice([1, 2, 3])]
        if k == 'dwait':
            return ['dwait', rng.choice([1, 2])]
        if k == 'any':
            return ['any', rng.choice([1, 2]), rng.choice([1, 2])]
        if k == 'nest':
            return ['nest', rng.choice([1, 2, 3]), rng.choice([1, 2, 3]), rng.choice([1, 2, 3])]
        if k == 'nest2':
            a, b, c = rng.sample([1, 2, 3, 4], 3)       # distinct dates: no ties inside one time step
            return ['nest2', a, b, c]
        if k == 'native':
            return ['native', 1]
        if k == 'proc':
            return ['proc', rng.choice(others)]
        return ['intr', rng.choice(others), 40 + i]
    n = rng.choice([2, 3, 3])
    if rng.random() < 0.06:
        # run(until=0) at time 0: nothing at a later time may run (uz: the monitor takes the date 0, not "no limit")
        return {'until': 0, 'uz': True, 'defuse': False, 'procs': [[step(i + 1, n) for _ in range(rng.randint(1, ns))] for i in range(n)]}
    return {'until': rng.choice([0, 0, 2, 11]), 'defuse': rng.random() < 0.25, 'procs': [[step(i + 1, n) for _ in range(rng.randint(1, ns))] for i in range(n)]}
