"""Thin driver around TLC: writes a cfg, runs the model checker, parses its report."""
import os
import re
import shutil
import subprocess
import tempfile
import time

SPEC_DIR = os.path.join(os.path.dirname(os.path.dirname(os.path.abspath(__file__))), 'spec')
JAR = '/opt/veriftools/tla/tla2tools.jar:/opt/veriftools/tla/CommunityModules-deps.jar'


# constants every USim configuration needs; a config only lists what it uses
DEFAULTS = dict(NQueues=0, NChans=0, CondSel='none', TickSel='none', NRes=0, MaxPools=0, ResInit=0, MaxLevel=3, NT=1, ResInitB=0, AmtMax=2)


def tla_value(v):
    if isinstance(v, bool):
        return 'TRUE' if v else 'FALSE'
    if isinstance(v, int):
        return str(v)
    if isinstance(v, str):
        return '"%s"' % v
    if isinstance(v, (set, frozenset)):
        return '{' + ', '.join(sorted(tla_value(x) for x in v)) + '}'
    if isinstance(v, (list, tuple)):
        return '<<' + ', '.join(tla_value(x) for x in v) + '>>'
    raise TypeError(v)


def write_cfg(path, spec, constants, invariants=(), view=None, constraint=None,
              properties=(), postcondition=None, deadlock=False):
    lines = ['SPECIFICATION %s' % spec]
    if constants:
        constants = dict(DEFAULTS, **constants)
        lines.append('CONSTANTS')
        for k, v in constants.items():
            if k.startswith('_'):      # harness-only parameter, not a TLA+ constant
                continue
            lines.append('  %s = %s' % (k, tla_value(v)))
    for inv in invariants:
        lines.append('INVARIANT %s' % inv)
    for p in properties:
        lines.append('PROPERTY %s' % p)
    if view:
        lines.append('VIEW %s' % view)
    if constraint:
        lines.append('CONSTRAINT %s' % constraint)
    if postcondition:
        lines.append('POSTCONDITION %s' % postcondition)
    lines.append('CHECK_DEADLOCK %s' % ('TRUE' if deadlock else 'FALSE'))
    with open(path, 'w') as fh:
        fh.write('\n'.join(lines) + '\n')


class TLCResult:
    def __init__(self, out, rc, wall):
        self.out = out
        self.rc = rc
        self.wall = wall
        m = re.search(r'(\d+) states generated, (\d+) distinct states found, (\d+) states left', out)
        self.generated = int(m.group(1)) if m else 0
        self.distinct = int(m.group(2)) if m else 0
        self.left = int(m.group(3)) if m else -1
        m = re.search(r'depth of the complete state graph search is (\d+)', out)
        self.depth = int(m.group(1)) if m else 0
        self.violated = re.findall(r'Error: Invariant (\S+) is violated', out)
        self.violated += re.findall(r'Error: Action property (\S+) is violated', out)
        if 'Temporal properties were violated' in out:
            self.violated.append('temporal')
        self.errors = [l for l in out.splitlines() if l.startswith('Error:')]
        self.complete = self.left == 0 and not self.errors
        # per-action coverage "<Action line .. of module M>: distinct:generated"
        self.coverage = {}
        for m in re.finditer(r'^<(\w+) line \d+, col \d+ to line \d+, col \d+ of module (\w+)>: (\d+):(\d+)', out, re.M):
            self.coverage[m.group(1)] = (int(m.group(3)), int(m.group(4)))

    def ok(self):
        return self.rc == 0 and not self.errors


def run_tlc(module, cfg_path, workers=16, env=None, coverage=False, timeout=3600,
            extra=(), heap='8g', simulate=None, depth=None, witness_limit=None, rng=None):
    """run TLC on spec/<module>.tla with the given cfg; returns TLCResult"""
    meta = tempfile.mkdtemp(prefix='usimverif-tlc-')
    cmd = ['java', '-XX:+UseParallelGC', '-Xmx' + heap, '-Djava.io.tmpdir=' + meta, '-cp', JAR, 'tlc2.TLC',
           '-workers', str(workers), '-metadir', meta, '-noGenerateSpecTE',
           '-config', cfg_path]
    if coverage:
        cmd += ['-coverage', '1']
    if simulate:
        cmd += ['-simulate', simulate]
    if depth:
        cmd += ['-depth', str(depth)]
    cmd += list(extra)
    cmd.append(os.path.join(SPEC_DIR, module + '.tla'))
    e = dict(os.environ)
    if env:
        e.update(env)
    t0 = time.time()
    # the output is streamed: witness lines (the bulk: up to millions of them) go through a seeded reservoir sample,
    # everything else is kept as text for the report parser
    import threading
    from witness import _W
    res, seen, other = [], 0, []
    p = subprocess.Popen(cmd, cwd=SPEC_DIR, env=e, stdout=subprocess.PIPE, stderr=subprocess.STDOUT, text=True,
                         errors='replace', bufsize=1 << 20)
    timed_out = []

    def kill():
        timed_out.append(True)
        p.kill()
    timer = threading.Timer(timeout, kill)
    timer.start()
    try:
        for line in p.stdout:
            if '<<"W"' in line:
                for m in _W.finditer(line):
                    seen += 1
                    if witness_limit is None or len(res) < witness_limit:
                        res.append(m.group(1))
                    else:
                        j = rng.randrange(seen)
                        if j < witness_limit:
                            res[j] = m.group(1)
            else:
                other.append(line)
        rc = p.wait()
    finally:
        timer.cancel()
        shutil.rmtree(meta, ignore_errors=True)
    out = ''.join(other)
    if timed_out:
        out += '\nError: TLC timed out after %ds' % timeout
        rc = 124
    r = TLCResult(out, rc, time.time() - t0)
    r.witness_raw, r.witness_total = res, seen
    return r

