"""Configurations of the USim model for the task / scope properties (C03..C07) and the shared runner."""
import os

import usimrun

B = dict(NFlags=1, NLocks=1, Horizon=2)
CONFIGS = {
    # scope aborts: body raises / child fails (incl. privileged, in clean-up handlers), volatile children
    'abort': dict(B, NRoots=1, MaxActs=3, MaxScopes=1, RootOps=4, TaskOps=2,
                  Menu={'leave', 'instant', 'open', 'do', 'do_volatile', 'do_fin', 'raise', 'raise_priv'}),
    # nested scopes, uncaught Concurrent travelling outwards
    'nested': dict(B, NRoots=1, MaxActs=3, MaxScopes=2, RootOps=4, TaskOps=3,
                   Menu={'leave', 'instant', 'open', 'nocatch', 'do', 'raise'}),
    # cancellation at every boundary, awaiters, status
    'cancel': dict(B, NRoots=1, MaxActs=3, MaxScopes=1, RootOps=5, TaskOps=2,
                   Menu={'leave', 'instant', 'sleep', 'open', 'do', 'do_after', 'cancel', 'await_t', 'status'}),
    # until(delay) / until(flag) racing with completion, children and failures
    'until': dict(B, NRoots=2, MaxActs=3, MaxScopes=2, RootOps=3, TaskOps=1,
                  Menu={'leave', 'instant', 'sleep', 'until_d', 'until_f', 'fset', 'do', 'raise'}),
    # until with children that react to being closed
    'until_kids': dict(B, NRoots=1, MaxActs=3, MaxScopes=1, RootOps=3, TaskOps=2, Horizon=3,
                       Menu={'leave', 'instant', 'sleep', 'until_d', 'do', 'do_fin', 'do_volatile'}),
    # children of an until block whose start date (or next tick) lies BEYOND the trigger, with the simulation going on
    # past those dates afterwards: what the forced close leaves behind in the time queue must be dead
    'until_late': dict(B, NRoots=1, MaxActs=3, MaxScopes=1, RootOps=4, TaskOps=1, Horizon=3, TickSel='mixed',
                       Menu={'leave', 'sleep', 'until_d', 'do', 'do_after', 'do_volatile', 'tick'}),
    # until(<date condition>) left by the body's own exception / completion in the step the date fires
    'until_time': dict(B, NRoots=1, MaxActs=2, MaxScopes=1, RootOps=4, TaskOps=1,
                       Menu={'instant', 'sleep', 'leave', 'until_time', 'raise', 'do'}),
    # until(<connective of flags>): the notification fires when the connective becomes true
    'until_conn': dict(B, NRoots=2, MaxActs=3, MaxScopes=1, RootOps=3, TaskOps=1, NFlags=2, CondSel='flat',
                       Menu={'instant', 'sleep', 'leave', 'until_conn', 'fset', 'do'}),
    # a second activity watches the children of somebody else's scope and spawns into that scope when one ends
    # ("supervisor restarts the worker"): late spawns racing with the failure of the last child
    'supervisor': dict(B, NRoots=2, MaxActs=4, MaxScopes=1, RootOps=3, TaskOps=1,
                       Menu={'open', 'do', 'do_after', 'raise', 'leave', 'await_t', 'sleep', 'instant'}),
    # a task cancelled while it is inside its own scope whose child fails in the same time step
    'cancel_nested': dict(B, NRoots=1, MaxActs=3, MaxScopes=2, RootOps=4, TaskOps=3, Horizon=1,
                          Menu={'instant', 'sleep', 'open', 'do', 'cancel', 'raise', 'nocatch'}),
    # tasks that catch their cancellation and shut down gracefully; repeated cancel() during the shutdown
    'cancel_grace': dict(B, NRoots=1, MaxActs=3, MaxScopes=1, RootOps=6, TaskOps=2, Horizon=3,
                         Menu={'instant', 'sleep', 'open', 'do', 'do_grace', 'cancel', 'leave'}),
    # a task waiting for a flag is cancelled, woken and cancelled again within one time step
    # (two controllers: the second cancel() comes from another activity before the first one is delivered)
    'cancel_wake': dict(B, NRoots=2, MaxActs=3, MaxScopes=1, RootOps=5, TaskOps=1, Horizon=1,
                        Menu={'sleep', 'open', 'do', 'cancel', 'fset', 'await_f', 'leave'}),
    # a cancellation racing with a forced close of the same task
    'cancel_close': dict(B, NRoots=1, MaxActs=3, MaxScopes=1, RootOps=5, TaskOps=2,
                         Menu={'leave', 'instant', 'open', 'do', 'cancel', 'raise'}),
    # graceful exit vs. late spawns and volatile children
    'graceful': dict(B, NRoots=1, MaxActs=4, MaxScopes=1, RootOps=4, TaskOps=2,
                     Menu={'leave', 'instant', 'sleep', 'open', 'do', 'do_volatile', 'cancel'}),
}
# configurations whose interesting states are rare: every witness is replayed, not a sample
FULL = {'supervisor': 80000}
INVS = ['NoFault', 'NoForeignSignal', 'RunLive', 'CascadeShape', 'Contained', 'NoStepAfterExit', 'DoneStable']


def run(check, obs, labels, limit=None, invariants=INVS, random=True, conform=False, more=()):
    if limit is None:
        limit = 12000 if check.tier == 'quick' else 250000
    from concurrent.futures import ThreadPoolExecutor
    samples = []

    def judge(runs):
        # verdict for one batch of real traces; the batch is dropped afterwards (the thorough tier replays millions)
        for idx, clause, pos in check.validate(obs, [r[1] for r in runs]):
            check.report(clause, runs[idx][0], runs[idx][1], pos, extra=usimrun.run_extra(runs[idx]))
        if runs and len(samples) < 3:
            samples.append({'program': runs[0][0], 'trace': runs[0][1][:14]})

    def gen(label):
        return label, check.witnesses(label, CONFIGS[label], emit='EmitOps', invariants=list(invariants) + (['NoStuck'] if check.tier == 'thorough' else []),
                                      coverage=check.tier == 'thorough', limit=max(limit, FULL.get(label, 0)))
    labels = os.environ['VERIF_LABELS'].split() if os.environ.get('VERIF_LABELS') else list(labels)   # developer knob
    for lo in range(0, len(labels), 3):         # the TLC runs of three configurations overlap
        with ThreadPoolExecutor(3) as ex:
            generated = list(ex.map(gen, labels[lo:lo + 3]))
        for label, ws in generated:
            consts = CONFIGS[label]
            judge([(p, t, consts['NRoots']) for p, t in usimrun.replay(check, ws, consts, limit=max(limit, FULL.get(label, 0)))])
        del generated
    if random:
        judge(usimrun.random_runs(check, conform=conform))
        judge(usimrun.teardown_runs(check))        # children blocked in every kind of wait torn down, then inspected
    if more:
        judge(list(more))
    check.samples = samples
    return None
