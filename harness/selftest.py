"""Binding self-test: traces recorded from the real code are CORRUPTED (one event dropped, one date shifted, two events
of one activity swapped) and TLC must reject them against the operational spec (USimT) - a trace specification that
accepted them would constrain nothing.  Run:  bin/python harness/selftest.py [n]   (developer tool; C03 records a
small run of it in its evidence)."""
import copy
import os
import random
import sys

sys.path.insert(0, os.path.dirname(os.path.abspath(__file__)))
import storm
import usimrun


def corrupt(trace, rng):
    """returns (kind, corrupted trace) or None; every corruption yields a sequence that is NOT a behaviour of usim"""
    tr = copy.deepcopy(trace)
    body = [i for i, e in enumerate(tr) if e['e'] not in ('init', 'fin')]
    kind = rng.choice(['drop_return', 'late_resume', 'swap_own'])
    if kind == 'drop_return':
        # an operation that never returns although the same activity goes on with its next operation
        cand = [i for i in body if tr[i]['e'] == 'r' and any(tr[j]['e'] == 'b' and tr[j]['a'] == tr[i]['a'] for j in body if j > i)]
        if not cand:
            return None
        del tr[rng.choice(cand)]
    elif kind == 'late_resume':
        # a timed wait that resumes one time unit late (and everything after it with it, so that the clock stays monotone)
        cand = [i for i in body if tr[i]['e'] == 'r' and tr[i].get('op') == 'sleep']
        if not cand:
            return None
        i = rng.choice(cand)
        for j in range(i, len(tr)):
            if 't' in tr[j]:
                tr[j]['t'] += 1
    else:
        # begin and return of one operation in the wrong order
        cand = [i for i in body if tr[i]['e'] == 'b' and i + 1 < len(tr) and tr[i + 1]['e'] == 'r' and tr[i + 1]['a'] == tr[i]['a']]
        if not cand:
            return None
        i = rng.choice(cand)
        tr[i], tr[i + 1] = tr[i + 1], tr[i]
    return kind, tr


def run(check, n=300):
    rng = random.Random(check.seed + 77)
    keep = check.extra.get('random_programs')
    runs = usimrun.random_runs(check, n=n)
    if keep is not None:
        check.extra['random_programs'] = keep
    else:
        check.extra.pop('random_programs', None)
    progs = check.programs
    bad, kinds = [], []
    for r in runs:
        c = corrupt(r[1], rng)
        if c:
            kinds.append(c[0])
            bad.append(c[1])
    check.programs = progs - n        # these executions serve the self-test only
    acc = usimrun.conformance(check, 'selftest', storm.BIG, bad)
    out = {'corrupted_traces': len(bad), 'rejected_by_USimT': None if acc is None else len(bad) - len(acc),
           'kinds': {k: kinds.count(k) for k in set(kinds)},
           'accepted_kinds': None if acc is None else sorted(set(kinds[i] for i in acc))}
    check.extra['binding_selftest'] = out
    return out


if __name__ == '__main__':
    import core
    chk = core.Check('C00', 'quick', seed=0)
    print(run(chk, int(sys.argv[1]) if len(sys.argv) > 1 else 300))
