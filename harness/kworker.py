"""Runs seeded random programs with kernel-level tracing installed and writes the K-traces (one per Loop).

usage: kworker.py <out.json> <seed> <n>
"""
import json
import random
import sys


def main():
    dst, seed, n = sys.argv[1], int(sys.argv[2]), int(sys.argv[3])
    import ktrace
    ktrace.install()
    import puppet
    import storm
    puppet.install_livelock_guard()
    rng = random.Random(seed)
    for i in range(n):
        p = (storm.timing_program, storm.tick_program, storm.rendezvous_program)[i % 3](rng)
        # ObsK states the queue discipline for clocks at which a positive delay moves the date.  At clock readings of
        # 2^53 and beyond, or at infinity, `now + d == now`: the loop then opens a second time step with the same clock
        # reading, which the kernel monitor does not model (the activity-level monitors judge those programs)
        if abs(p['start']) >= 2.0 ** 52 or 'Infinity' in json.dumps(p):
            continue
        puppet.run_program(p['roots'], nroots=len(p['roots']), start=p['start'])
    with open(dst, 'w') as fh:
        json.dump(ktrace.collect(), fh)


if __name__ == '__main__':
    main()
