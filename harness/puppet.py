"""
Puppet activities: interpreters that execute a JSON program (one op list per
activity, produced by the TLA+ model's most general client) on the REAL usim
from /repo's working tree, using only the public API, and record the same
observable events the model emits in `ev`.

Event kinds (see spec/USim.tla):
  b  op begins            r  op returned          x  op raised an Exception (caught)
  u  a BaseException passed through the op/block  p  synchronous probe
  end  activity ended (how: ok | cancelled | closed | failed | signal)
"""
import sys
import types

sys.unraisablehook = lambda *args: None   # silence GC-time clean-up of abandoned coroutines

import usim
from usim import Pipe, UnboundedPipe, collect, first, interval, delay, IntervalExceeded, eternity, Scope, until, time, Flag, Lock, instant, Concurrent, TaskCancelled, \
    TaskClosed, CancelTask, Queue, Channel, StreamClosed, Resources, Capacities, ResourcesUnavailable
from usim._core.loop import Interrupt, Loop
from usim._primitives.context import CancelScope, ScopeClosed


class _EqualByClass:
    """the exceptions the puppets raise are DISTINCT objects that compare EQUAL within their class (like exceptions
    built from dataclasses): a failure report that merges or finds children by equality instead of identity is noticed"""

    def __eq__(self, other):
        return type(other) is type(self)

    def __hash__(self):
        return 13


class KeyErr(_EqualByClass, KeyError):
    pass


class IndexErr(_EqualByClass, IndexError):
    pass


# privileged class: the plain AssertionError (Scope.PROMOTE_CONCURRENT tests the exact type)
AssertErr = AssertionError


class AssertSub(AssertionError):
    """an application-specific subclass of a privileged type: raised by tasks outside any scope of their own, i.e.
    where it is purely a CHILD failure of the parent scope (children are tested with isinstance)"""


CLASSES = {'Key': KeyErr, 'Index': IndexErr, 'Assert': AssertErr}


class Msg:
    """what the puppets send through queues and channels: DISTINCT objects that compare EQUAL (like equal records of
    different identity), so that a stream which finds or removes messages by equality instead of by position /
    identity is noticed; the events record the id"""
    __slots__ = ('id',)

    def __init__(self, ident):
        self.id = ident

    def __eq__(self, other):
        return isinstance(other, Msg)

    def __hash__(self):
        return 11

    def __repr__(self):
        return 'Msg(%d)' % self.id


def unmsg(v):
    return v.id if isinstance(v, Msg) else v


class LivelockAbort(BaseException):
    """raised by the harness when one time step executes too many activations"""


@types.coroutine
def unwinding(awaitable):
    """await `awaitable`; if the awaiting coroutine is closed, the GeneratorExit is THROWN into the awaitable (so that
    an async generator behind an __anext__() is unwound and its `finally` clauses run) instead of merely closing it"""
    it = awaitable.__await__()
    try:
        command = it.send(None)
    except StopIteration as done:
        return done.value
    while True:
        try:
            reply = yield command
        except BaseException as err:     # GeneratorExit included
            try:
                command = it.throw(err)
            except StopIteration as done:
                return done.value
        else:
            try:
                command = it.send(reply)
            except StopIteration as done:
                return done.value


class World:
    def __init__(self, prog, nroots, nflags=2, nlocks=2, max_turns=5000, nqueues=2, nchans=2,
                 nres=2, resinit=2, reskind='res', horizon=float('inf'), nt=1, resinitb=0):
        # prog: list of op lists, index a-1
        self.prog = prog
        self.nroots = nroots
        self.log = []
        self.flags = {f + 1: Flag() for f in range(nflags)}
        self.locks = {i + 1: Lock() for i in range(nlocks)}
        self.queues = {i + 1: Queue() for i in range(nqueues)}
        self.chans = {i + 1: Channel() for i in range(nchans)}
        self.stream_id = {id(q): ('q', i) for i, q in self.queues.items()}
        self.stream_id.update({id(c): ('ch', i) for i, c in self.chans.items()})
        self.iters = {}       # (activity, channel) -> async iterator of a consumer
        self.ticks = {}       # ticker key -> date of its last tick
        self.flow_workers = []      # coroutines handed to collect() / first()
        self.kept = []              # ticker objects that outlive their activity (op tick with keep)
        self.horizon = horizon  # largest date of the model configuration being replayed
        self.strict = horizon != float('inf') and False
        self.pipe = None
        self.pipe2 = None
        mk = Resources if reskind == 'res' else Capacities
        # nt = 2: every supply has two resource types, `a` and `b` (levels and amounts are vectors)
        self.nt = nt
        self.pools = {i + 1: (mk(a=resinit) if nt == 1 else mk(a=resinit, b=resinitb)) for i in range(nres)}   # pool id -> supply / open share
        self.npool = nres
        self.nres = nres
        self.nitem = 0
        self.tasks = {}       # k -> Task
        self.cmps = {}        # shared comparison objects of tracked levels
        self.task_id = {}     # id(Task) -> k
        self.scopes = {}      # s -> Scope
        self.scope_id = {}
        self.excs = {}        # id(exception object) -> encoding
        self.nact = nroots
        self.nsc = 0
        self.nexc = 0
        self.max_turns = max_turns
        self.frozen = False

    def now(self):
        t = time.now
        if t == float('inf') and getattr(self, 'inf99', False):
            return 99       # scenario spaces with integer dates write the end of time as 99
        return int(t) if t != float('inf') and t == int(t) else t

    def emit(self, e, a, **kw):
        if self.frozen:
            return      # clean-up after the run has ended is not part of the trace
        rec = {'e': e, 'a': a, 't': self.now()}
        rec.update(kw)
        self.log.append(rec)

    # ------------------------------------------------------------ encodings
    def enc(self, err, ctx_task=0):
        """structural encoding of an exception, the same shape as the model's values"""
        if isinstance(err, KeyErr) and err.args and isinstance(err.args[0], int) and err.args[0] >= 1000:
            return ['exc', err.args[0], 'Key']
        if isinstance(err, (KeyErr, IndexErr)) or (type(err) in (AssertionError, AssertSub) and err.args
                                                     and isinstance(err.args[0], int)):
            cls = 'Key' if isinstance(err, KeyErr) else 'Index' if isinstance(err, IndexErr) else \
                'AssertSub' if type(err) is AssertSub else 'Assert'
            return ['exc', err.args[0], cls]
        if isinstance(err, Concurrent):
            return ['conc', [self.enc(c) for c in err.children]]
        if isinstance(err, TaskCancelled):
            k = self.task_id.get(id(getattr(err, 'subject', None)), 0)
            if err.args != ('tok', k):
                return ['tcancelled', k, 'token %r' % (err.args,)]     # (not what cancel() was given)
            return ['tcancelled', k]
        if isinstance(err, TaskClosed):
            return ['tclosed', ctx_task]
        if isinstance(err, StreamClosed):
            return ['streamclosed'] + list(self.stream_id.get(id(getattr(err, 'stream', None)), ('?', 0)))
        if isinstance(err, IntervalExceeded):
            return ['exceeded']
        if isinstance(err, ResourcesUnavailable):
            return ['unavailable', getattr(err, '_verif_pool', 0)]
        if isinstance(err, StopAsyncIteration):
            return ['stopiter']
        if isinstance(err, ScopeClosed):
            return ['scopeclosed', self.scope_id.get(id(getattr(err, 'scope', None)), 0)]
        if isinstance(err, GeneratorExit):
            return ['genexit']
        if isinstance(err, CancelTask):
            k = self.task_id.get(id(getattr(err, 'subject', None)), 0)
            try:
                n = err.subject._cancellations.index(err) + 1
            except (ValueError, AttributeError):     # (internals restructured: the ordinal is informational only)
                n = 0
            return ['ct', k, n]
        if isinstance(err, CancelScope):
            scope = getattr(err, 'subject', None)
            s = self.scope_id.get(id(scope), 0)
            own = getattr(scope, '_cancel_self', None)
            if own is None:     # (internals restructured) an until-block's trigger is its `_interrupt`
                return ['ci' if err is getattr(scope, '_interrupt', None) else 'cs', s]
            return ['cs' if err is own else 'ci', s]
        if isinstance(err, Interrupt):
            return ['wk', 0, 0]
        return ['other', type(err).__name__, str(err)[:80]]


def how(err):
    if err is None:
        return 'ok'
    if isinstance(err, CancelTask):
        return 'cancelled'
    if isinstance(err, GeneratorExit):
        return 'closed'
    if isinstance(err, (Exception, Concurrent)):
        return 'failed'
    return 'signal'


class Puppet:
    def __init__(self, world, a):
        self.w = world
        self.a = a
        # a task the model did not foresee (e.g. a spawn it expects to be refused) gets a visible default program
        self.ops = world.prog[a - 1] if a - 1 < len(world.prog) else [{'op': 'sleep', 'd': 1}]
        self.i = 0
        self.scope_stack = []  # ids of the scope blocks this activity has open (innermost last)
        self.fin = 'none'     # clean-up behaviour when closed
        self.graced = False
        self.scope = 0        # scope this task was spawned into

    def emit(self, e, **kw):
        self.w.emit(e, self.a, **kw)

    def on_close(self):
        """clean-up handler of a task that is being closed (GeneratorExit)"""
        w = self.w
        if self.fin == 'raise':
            w.nexc += 1
            self.emit('b', op='raise', cls='Key', id=w.nexc)
            self.emit('end', how='failed', exc=['exc', w.nexc, 'Key'])     # the final outcome of this task
            raise KeyErr(w.nexc)
        if self.fin == 'spawn':
            self.spawn({'op': 'do', 's': self.scope, 'vol': False, 'd': 0, 'fin': 'none'})

    async def main(self):
        try:
            try:
                await self.block()
            except CancelTask as err:
                if self.fin != 'grace' or self.graced or time.now + 1 > self.w.horizon:
                    raise
                # graceful shutdown: catch the first cancellation, take one time unit, then re-raise it
                self.graced = True
                self.emit('g')
                try:
                    await (time + 1)
                except BaseException as err2:
                    self.emit('u', op='grace', exc=self.w.enc(err2))
                    raise
                self.emit('r', op='grace')
                raise err
        except BaseException as err:
            self.emit('end', how=how(err), exc=self.w.enc(err))
            if isinstance(err, GeneratorExit) and self.fin in ('raise', 'spawn'):
                self.on_close()
            raise
        else:
            self.emit('end', how='ok', exc=[])

    def resolve(self, op):
        """generated programs refer to tasks / scopes relatively (k = -n: the n-th most recently spawned task);
        an operation whose reference does not exist (yet) is skipped"""
        w = self.w
        if op.get('k', 1) < 0:
            k = w.nact + 1 + op['k']
            if k <= w.nroots or k not in w.tasks or (op['op'] == 'await_t' and k == self.a):
                return None
            op = dict(op, k=k)
        if op['op'] == 'await_s' and op['s'] < 0:
            s = w.nsc + 1 + op['s']
            if s < 1:
                return None
            op = dict(op, s=s)
        if op['op'] == 'cstop' and (self.a, op['c']) not in w.iters:
            return None
        if op['op'] in ('inc', 'dec') and 'amt' in op and op.get('p') in w.pools and not w.strict:
            level = w.pools[op['p']].levels.a
            amt = min(op['amt'], level) if op['op'] == 'dec' else max(0, min(op['amt'], 3 - level))
            if (level - amt if op['op'] == 'dec' else level + amt) > 3:
                return None     # (generated programs) the model bounds the level that a change may produce: MaxLevel
            op = dict(op, amt=amt)
            if w.nt == 2 and 'amtb' in op:
                lb = w.pools[op['p']].levels.b
                op['amtb'] = min(op['amtb'], lb) if op['op'] == 'dec' else max(0, min(op['amtb'], 3 - lb))
        return op

    async def block(self):
        """run ops until an explicit leave (-> False) or the end of the program (-> True)"""
        while self.i < len(self.ops):
            op = self.ops[self.i]
            self.i += 1
            if op['op'] == 'leave':
                return False
            op = self.resolve(op)
            if op is None:
                continue
            await getattr(self, 'op_' + op['op'])(op)
        return True

    # ------------------------------------------------------------ leaf ops
    async def leaf(self, op, awaitable_factory, args, ctx_task=0, tag=None):
        name = op['op']
        tag = tag or {}
        self.emit('b', op=name, **args)
        try:
            value = await awaitable_factory()
        except (Exception, Concurrent) as err:
            self.emit('x', op=name, exc=self.w.enc(err, ctx_task), **tag)
        except BaseException as err:
            self.emit('u', op=name, exc=self.w.enc(err, ctx_task), **tag)
            raise
        else:
            self.emit('r', op=name, **tag)
            return value

    async def op_instant(self, op):
        async def f():
            await instant
        await self.leaf(op, f, {})

    async def op_sleep(self, op):
        async def f():
            await (time + op['d'])
        await self.leaf(op, f, {'d': op['d'], 'due': time.now + op['d']})

    async def op_fset(self, op):
        async def f():
            await self.w.flags[op['f']].set(op['v'])
        await self.leaf(op, f, {'f': op['f'], 'v': op['v']})

    async def op_await_f(self, op):
        async def f():
            flag = self.w.flags[op['f']]
            await (flag if op['v'] else ~flag)
        await self.leaf(op, f, {'f': op['f'], 'v': op['v']})

    async def op_cancel(self, op):
        async def f():
            # every cancellation carries a token; awaiters must get TaskCancelled with exactly this token
            self.w.tasks[op['k']].cancel('tok', op['k'])
        await self.leaf(op, f, {'k': op['k']})

    async def op_await_t(self, op):
        async def f():
            await self.w.tasks[op['k']]
        await self.leaf(op, f, {'k': op['k']}, ctx_task=op['k'], tag={'k': op['k']})

    async def op_raise(self, op):
        self.w.nexc += 1
        self.emit('b', op='raise', cls=op['cls'], id=self.w.nexc)
        if op['cls'] == 'Assert' and self.scope and not self.scope_stack:
            raise AssertSub(self.w.nexc)
        raise CLASSES[op['cls']](self.w.nexc)

    async def op_avail(self, op):
        self.emit('p', op='avail', l=op['l'], v=bool(self.w.locks[op['l']].available))

    async def op_do(self, op):
        self.spawn(op)

    def spawn(self, op):
        w = self.w
        if op['s'] == -1:       # generated programs: "my innermost open scope"
            op = dict(op, s=self.scope_stack[-1])
        scope = w.scopes[op['s']]
        k = w.nact + 1
        child = Puppet(w, k)
        if 'prog' in op:        # generated programs carry the child's program inline
            child.ops = op['prog']
        child.fin = op.get('fin', 'none')
        child.scope = op['s']
        coro = child.main()
        kw = {}
        if op.get('d'):
            kw['after'] = op['d']
        args = dict(s=op['s'], vol=op['vol'], d=op.get('d', 0), fin=op.get('fin', 'none'))
        if 'at_abs' in op and op['at_abs'] >= time.now:
            op = dict(op, at=op['at_abs'])
        if 'at_rel' in op:      # generated programs: an absolute start date relative to now
            op = dict(op, at=time.now + op['at_rel'])
        if 'at' in op:
            kw = {'at': op['at']}
            args['at'] = op['at']
        args['due'] = op['at'] if 'at' in op else time.now + op.get('d', 0)
        try:
            task = scope.do(coro, volatile=op['vol'], **kw)
        except (Exception, Concurrent) as err:
            self.emit('b', op='do', k=0, **args)
            self.emit('x', op='do', exc=w.enc(err))
        else:
            w.nact = k
            w.tasks[k] = task
            w.task_id[id(task)] = k
            self.emit('b', op='do', k=k, **args)
            self.emit('r', op='do')

    async def op_status(self, op):
        st = self.w.tasks[op['k']].status
        name = {usim.TaskState.CREATED: 'created', usim.TaskState.RUNNING: 'running',
                usim.TaskState.CANCELLED: 'cancelled', usim.TaskState.FAILED: 'failed',
                usim.TaskState.SUCCESS: 'success'}.get(st, str(st))
        self.emit('p', op='status', k=op['k'], v=name)

    # ------------------------------------------------------------ conditions
    def cond(self, c):
        """build the real condition object for a model expression"""
        k = c[0]
        if k == 'flag':
            return self.w.flags[c[1]]
        if k == 'nflag':
            return ~self.w.flags[c[1]]
        if k == 'done':
            return self.w.tasks[c[1]].done
        if k == 'ndone':
            return ~self.w.tasks[c[1]].done
        if k == 'ge':
            return time >= c[1]
        if k == 'lt':
            return time < c[1]
        if k == 'eq':
            return time == c[1]
        if k == 'inst':
            return instant
        if k == 'etern':
            return eternity
        if k in ('all', 'any'):
            parts = [self.cond(x) for x in c[1]]
            res = parts[0]
            for p in parts[1:]:
                res = (res & p) if k == 'all' else (res | p)
            return res
        raise ValueError(c)

    async def op_mkc(self, op):
        """build a time condition NOW and keep the object (`c` may name the current time: ['eq', 'now']); it is
        awaited later, by op await_c with the same slot `j`"""
        c = [op['c'][0], time.now if op['c'][1] == 'now' else op['c'][1]]
        self.w.iters[(self.a, 'cond', op['j'])] = (c, self.cond(c))
        self.emit('p', op='mkc', j=op['j'])

    async def op_await_c(self, op):
        made = self.w.iters.get((self.a, 'cond', op.get('j'))) if 'j' in op else None
        if 'j' in op and made is None:
            return      # (the slot was never filled)
        if made is not None:
            op = dict(op, c=made[0])

        async def f():
            await (made[1] if made is not None else self.cond(op['c']))
        args = {'c': op['c']}
        c, now = op['c'], time.now
        if c[0] == 'ge':
            args['due'] = max(now, c[1])
        elif c[0] == 'eq':
            args.update({'due': c[1]} if now <= c[1] else {'never': True})
        elif c[0] == 'lt':
            args.update({'due': now} if now < c[1] else {'never': True})
        elif c[0] == 'etern':
            args['never'] = True
        await self.leaf(op, f, args, tag={'c': op['c']})

    async def op_await_s(self, op):
        async def f():
            await self.w.scopes[op['s']]
        await self.leaf(op, f, {'s': op['s']}, tag={'s': op['s']})

    async def op_probe_c(self, op):
        cond = self.cond(op['c'])
        self.emit('p', op='probe_c', c=op['c'], v=bool(cond), nv=bool(~cond))

    # ------------------------------------------------------------ streams
    def new_item(self, stream):
        if stream.closed:
            return 0
        self.w.nitem += 1
        return self.w.nitem

    async def leafv(self, op, awaitable_factory, args, tag):
        """leaf op that returns a value"""
        name = op['op']
        self.emit('b', op=name, **args)
        try:
            value = await awaitable_factory()
        except (Exception, Concurrent) as err:
            self.emit('x', op=name, exc=self.w.enc(err), **tag)
        except BaseException as err:
            self.emit('u', op=name, exc=self.w.enc(err), **tag)
            raise
        else:
            self.emit('r', op=name, v=unmsg(value), **tag)

    async def op_put(self, op):
        q = self.w.queues[op['q']]
        v = self.new_item(q)

        async def f():
            await q.put(Msg(v))
        await self.leaf(op, f, {'q': op['q'], 'v': v})

    async def op_qclose(self, op):
        async def f():
            await self.w.queues[op['q']].close()
        await self.leaf(op, f, {'q': op['q']})

    async def op_get(self, op):
        async def f():
            return await self.w.queues[op['q']]
        await self.leafv(op, f, {'q': op['q']}, {'q': op['q']})

    async def op_cput(self, op):
        c = self.w.chans[op['c']]
        v = self.new_item(c)

        async def f():
            await c.put(Msg(v))
        await self.leaf(op, f, {'c': op['c'], 'v': v})

    async def op_cclose(self, op):
        async def f():
            await self.w.chans[op['c']].close()
        await self.leaf(op, f, {'c': op['c']})

    async def op_cget(self, op):
        async def f():
            return await self.w.chans[op['c']]
        await self.leafv(op, f, {'c': op['c']}, {'c': op['c']})

    async def op_cnext(self, op):
        key = (self.a, op['c'])

        async def f():
            it = self.w.iters.get(key)
            if it is None:
                it = self.w.iters[key] = self.w.chans[op['c']].__aiter__()
            try:
                return await it.__anext__()
            except BaseException:
                self.w.iters.pop(key, None)     # the generator is finished
                raise
        await self.leafv(op, f, {'c': op['c']}, {'c': op['c']})

    async def op_cstop(self, op):
        it = self.w.iters.pop((self.a, op['c']), None)
        if it is not None:
            try:
                await it.aclose()
            except RuntimeError:
                pass
        self.emit('p', op='cstop', c=op['c'])

    # ------------------------------------------------------------ pipe
    def rat(self, t):
        """snap a float date to the small rational within the property's floating point tolerance"""
        from fractions import Fraction
        fr = Fraction(t).limit_denominator(5000)
        if abs(float(fr) - t) <= 1e-9 * max(1.0, abs(t)):
            return [fr.numerator, fr.denominator]
        return None

    def xemit(self, kind, i):
        t = self.rat(time.now)
        if t is None:
            self.w.log.append({'e': 'xbad', 'a': self.a, 'i': i, 'f': repr(time.now)})
        else:
            self.w.log.append({'e': kind, 'a': self.a, 'i': i, 't': t})

    async def op_transfer(self, op):
        pipe = self.w.pipe2 if op.get('pipe') == 2 else self.w.pipe     # (twin runs: a second, independent pipe)

        async def f():
            self.xemit('xb', op['i'])
            try:
                await pipe.transfer(op['v'], throughput=(1e17 if op['l'] == 99 else op['l']) or None)   # 99: 'practically unlimited'
            except BaseException:
                self.xemit('xu', op['i'])
                raise
            self.xemit('xr', op['i'])
        await self.leaf(op, f, {'i': op['i'], 'v': op['v'], 'l': op['l']})

    # ------------------------------------------------------------ collect / first
    async def work(self, i, dur, fail):
        self.emit('ws', w=i)
        if dur == 99:
            dur = float('inf')
        if dur > 0:
            await (time + dur)
        self.emit('we', w=i)
        if fail:
            raise KeyErr(1000 + i)
        return 100 + i

    async def op_flow(self, op):
        acts, k, cons = op['acts'], op['k'], op['cons']
        if any(a['d'] == 99 for a in acts):
            self.w.inf99 = True
        workers = [self.work(i + 1, a['d'], a['f']) for i, a in enumerate(acts)]
        self.emit('b', op='flow', fop=op['fop'], acts=acts, k=k, cons=cons)
        try:
            if op['fop'] == 'collect':
                res = await collect(*workers)
                self.emit('r', op='flow', v=res)
            else:
                n = 0
                agen = first(*workers, count=None if k == 99 else k)
                try:
                    async for x in agen:
                        self.emit('y', v=x)
                        n += 1
                        if cons == 'slow':
                            await (time + 1)
                        if cons == 'break1' and n == 1:
                            break
                finally:
                    # (a caller that is itself being closed cannot await; the generator was closed along with it)
                    if sys.exc_info()[0] is not GeneratorExit:
                        try:
                            await agen.aclose()      # the documented way to abandon an async iterator early
                        except GeneratorExit:
                            pass
                self.emit('r', op='flow', v=[])
        except (Exception, Concurrent) as err:
            self.emit('x', op='flow', exc=self.w.enc(err))
        except BaseException as err:
            self.emit('u', op='flow', exc=self.w.enc(err))
            raise
        finally:
            # activities that were never started are disposed of when the whole RUN is over (e.g. after a ValueError
            # for the count); until then every one of them must stay visible to the monitor: one that starts or goes
            # on after the call has ended is what `loser_ran_after` is about
            self.w.flow_workers.extend(workers)

    # ------------------------------------------------------------ tickers
    async def op_mktick(self, op):
        """create the ticker object now, iterate it later: the grid is anchored where the iteration starts"""
        key = (self.a, 'tick', op['i'])
        if key not in self.w.iters:
            self.w.iters[key] = (interval if op['kind'] == 'interval' else delay)(op['p']).__aiter__()
        self.emit('p', op='mktick', i=op['i'])

    async def op_tick(self, op):
        key = (self.a, 'tick', op['i'])

        async def f():
            it = self.w.iters.get(key)
            if it is None:
                it = self.w.iters[key] = (interval if op['kind'] == 'interval' else delay)(op['p']).__aiter__()
            try:
                if op.get('keep'):
                    # the ticker OBJECT outlives the activity that iterates it (kept by the world, as an attribute of
                    # a long-lived object would be) and is stepped as `async for` does
                    self.w.kept.append(it)
                    return await it.__anext__()
                # a puppet steps its tickers one operation at a time, so the iterator is referenced from outside the
                # activity.  Python's coroutine.close() closes the pending __anext__() awaitable WITHOUT unwinding
                # the generator behind it; the generator is unwound when its last reference goes, which for `async
                # for ticker in interval(..)` inside the closed activity is at once.  `unwinding` gives the puppets
                # that behaviour independent of reference counts (the other case is the `keep` variant above).
                return await unwinding(it.__anext__())
            except BaseException:
                self.w.iters.pop(key, None)     # the generator is finished
                raise
        args = {'i': op['i'], 'kind': op['kind'], 'p': op['p']}
        if op['p'] < 0:
            args['neg'] = True
        # expectation with the same float expressions as the ticker (used for non-integer dates only)
        now = time.now
        last = self.w.ticks.get(key, now)
        if op['kind'] == 'interval':
            args['late'] = (last + op['p'] - now) < 0
            args['due'] = last + op['p']
        else:
            args['due'] = now + op['p']
        self.w.ticks[key] = args['due']
        try:
            await self.leafv(op, f, args, {'i': op['i']})
        finally:
            if key not in self.w.iters:
                self.w.ticks.pop(key, None)

    # ------------------------------------------------------------ resources
    async def op_borrow(self, op):
        await self.borrow_block(op, claim=False)

    async def op_claim(self, op):
        await self.borrow_block(op, claim=True)

    def amounts(self, op, key='amt', keyb='amtb'):
        """keyword amounts of an operation; a type whose amount is zero is left out every other time (missing
        types count as zero)"""
        kw = {'a': op[key]}
        b = op.get(keyb, 0)
        if self.w.nt == 2 and (b or (op[key] + self.i) % 2 == 0):
            kw['b'] = b
        return kw

    def levelb(self, pool):
        return pool.levels.b if self.w.nt == 2 else 0

    async def borrow_block(self, op, claim):
        w = self.w
        p, amt = op['p'], op['amt']
        pool = w.pools[p]
        sh = w.npool + 1
        w.npool = sh
        name = 'claim' if claim else 'borrow'
        kw = self.amounts(op)
        block = pool.claim(**kw) if claim else pool.borrow(**kw)
        self.emit('b', op=name, p=p, amt=amt, amtb=op.get('amtb', 0), sh=sh)
        phase = 'enter'
        try:
            async with block as share:
                w.pools[sh] = share
                phase = 'body'
                self.emit('r', op=name, p=p)
                implicit = await self.block()
                phase = 'leave'
                self.emit('b', op='leave', implicit=implicit, blk='res', id=p)
            self.emit('r', op='leave', blk='res', id=p)
        except ResourcesUnavailable as err:
            err._verif_pool = p
            self.emit('x', op=name, p=p, exc=w.enc(err))
        except BaseException as err:
            if phase == 'body':
                self.emit('u', op='body', blk='res', id=p, exc=w.enc(err))
            elif phase == 'leave':
                self.emit('u', op='leave', blk='res', id=p, exc=w.enc(err))
            else:
                self.emit('u', op=name, p=p, exc=w.enc(err))
            raise

    async def rchange(self, op, kind):
        pool = self.w.pools[op['p']]

        async def f():
            if kind == 'inc':
                await pool.increase(**self.amounts(op))
            elif kind == 'dec':
                await pool.decrease(**self.amounts(op))
            else:
                # set() replaces only the types it names
                mask = op.get('mask', 1)
                kw = {}
                if mask in (1, 3):
                    kw['a'] = op['amt']
                if mask in (2, 3):
                    kw['b'] = op.get('amtb', 0)
                await pool.set(**kw)
        await self.leaf(op, f, {'p': op['p'], 'amt': op['amt'], 'amtb': op.get('amtb', 0),
                                'mask': op.get('mask', 1 if self.w.nt == 1 else 3)}, tag={'p': op['p']})

    async def op_inc(self, op):
        await self.rchange(op, 'inc')

    async def op_dec(self, op):
        await self.rchange(op, 'dec')

    async def op_rset(self, op):
        await self.rchange(op, 'rset')

    async def op_await_lvl(self, op):
        import operator
        rel = op.get('rel', 'ge')       # all six comparisons of the tracked level

        shared = bool(op.get('shared'))
        if shared:      # one comparison object per (supply, relation, value), kept by the world, shared by its waiters
            key = (op['p'], rel, op['v'], op.get('vb', 0))
            if key not in self.w.cmps:
                self.w.cmps[key] = getattr(operator, rel)(self.w.pools[op['p']], self.amounts(op, 'v', 'vb'))
            cond = self.w.cmps[key]

        async def f():
            await (cond if shared else getattr(operator, rel)(self.w.pools[op['p']], self.amounts(op, 'v', 'vb')))
        await self.leaf(op, f, {'p': op['p'], 'v': op['v'], 'vb': op.get('vb', 0), 'rel': rel, 'shared': shared, 'nt': self.w.nt}, tag={'p': op['p']})

    async def op_levels(self, op):
        self.emit('p', op='levels', p=op['p'], v=self.w.pools[op['p']].levels.a, vb=self.levelb(self.w.pools[op['p']]))

    # ------------------------------------------------------------ block ops
    async def op_enter(self, op):
        lock = self.w.locks[op['l']]
        self.emit('b', op='enter', l=op['l'])
        phase = 'enter'
        try:
            async with lock:
                phase = 'body'
                self.emit('r', op='enter', l=op['l'])
                implicit = await self.block()
                phase = 'leave'
                self.emit('b', op='leave', implicit=implicit, blk='lock', id=op['l'])
            self.emit('r', op='leave', blk='lock', id=op['l'])
        except BaseException as err:
            if phase == 'body':
                self.emit('u', op='body', blk='lock', id=op['l'], exc=self.w.enc(err))
            elif phase == 'leave':
                self.emit('u', op=phase, blk='lock', id=op['l'], exc=self.w.enc(err))
            else:
                self.emit('u', op=phase, l=op['l'], exc=self.w.enc(err))
            raise

    async def op_open(self, op):
        w = self.w
        kind = op['kind']
        if kind == 'scope':
            scope = Scope()
        elif kind == 'until_d':
            scope = until(time + op['d'])
        elif kind == 'until_f':
            scope = until(w.flags[op['f']])
        elif kind == 'until_c':
            made = w.iters.get((self.a, 'cond', op.get('j'))) if 'j' in op else None
            if 'j' in op and made is None:
                return      # (the slot was never filled)
            if made is not None:    # a condition OBJECT built earlier (op mkc) and possibly used before
                op = dict(op, c=made[0])
            scope = until(made[1] if made is not None else self.cond(op['c']))
        else:
            raise ValueError(kind)
        s = w.nsc + 1
        w.nsc = s
        w.scopes[s] = scope
        w.scope_id[id(scope)] = s
        args = {key: op[key] for key in ('kind', 'd', 'f', 'c', 'catch') if key in op}
        if kind == 'until_c' and op['c'][0] in ('ge', 'eq'):
            now_, date = time.now, op['c'][1]
            if op['c'][0] == 'eq' and now_ > date:
                args['never'] = True
            else:
                args['due'] = max(now_, date)
        if kind == 'until_d':
            args['due'] = time.now + op['d']
        self.emit('b', op='open', s=s, **args)
        phase = 'enter'
        try:
            async with scope:
                phase = 'body'
                self.emit('r', op='open')
                self.scope_stack.append(s)
                try:
                    implicit = await self.block()
                finally:
                    self.scope_stack.pop()
                phase = 'leave'
                self.emit('b', op='leave', implicit=implicit, blk='scope', id=s)
            if phase == 'leave':
                self.emit('r', op='leave', blk='scope', id=s)
            else:
                self.emit('r', op='body', blk='scope', id=s)
        except BaseException as err:
            caught = isinstance(err, (Exception, Concurrent)) and not isinstance(err, AssertionError) \
                and op.get('catch', True)
            self.emit('x' if caught else 'u', op=phase, blk='scope', id=s, exc=w.enc(err))
            if not caught:
                raise


def install_livelock_guard():
    """call-through wrapper on Loop._run_coroutine (harness process only)"""
    if getattr(Loop, '_verif_guard', False):
        return
    orig = Loop._run_coroutine

    def _run_coroutine(self, target, signal=None):
        limit = getattr(self, '_verif_limit', None)
        if limit is not None and self.turn > limit:
            raise LivelockAbort('more than %d activations at time %r' % (limit, self.time))
        return orig(self, target, signal)
    Loop._run_coroutine = _run_coroutine
    Loop._verif_guard = True


def run_program(prog, nroots, nflags=2, nlocks=2, start=0, nqueues=2, nchans=2, nres=2, resinit=2, reskind='res',
                pipe=None, head=None, horizon=float('inf'), nt=1, resinitb=0):
    """execute one program on the real usim; returns (events, outcome)"""
    world = World(prog, nroots, nflags, nlocks, nqueues=nqueues, nchans=nchans, nres=nres, resinit=resinit,
                  reskind=reskind, horizon=horizon, nt=nt, resinitb=resinitb)
    if pipe is not None:
        world.pipe = UnboundedPipe() if pipe == 0 else Pipe(throughput=float('inf') if pipe == 98 else pipe)
        world.pipe2 = UnboundedPipe() if pipe == 0 else Pipe(throughput=float('inf') if pipe == 98 else pipe)
    if head is not None:
        world.log.append(head)
    world.log.append({'e': 'init', 'a': 0, 'res': [world.pools[i + 1].levels.a for i in range(world.nres)],
                      'resb': [world.pools[i + 1].levels.b if nt == 2 else 0 for i in range(world.nres)]})
    roots = [Puppet(world, a + 1).main() for a in range(nroots)]
    outcome = {'k': 'ok'}
    try:
        usim.run(*roots, start=start)
    except LivelockAbort as err:
        outcome = {'k': 'livelock', 'msg': str(err)}
    except BaseException as err:
        tb = err.__traceback__
        last = None
        while tb is not None:
            last = tb.tb_frame.f_code.co_filename
            tb = tb.tb_next
        outcome = {'k': 'exc', 'cls': type(err).__name__, 'enc': world.enc(err),
                   'internal': world.enc(err)[0] not in ('exc', 'conc'),
                   'where': last or '', 'msg': str(err)[:120]}
    finally:
        world.frozen = True
        # tear down what is still suspended HERE, outside any simulation: left to the garbage collector, a leftover
        # would be closed during some later run and its clean-up code would schedule into that run's loop
        leftovers = [t.__runner__ for _, t in sorted(world.tasks.items(), reverse=True)] + roots + world.flow_workers
        for coro in leftovers:
            try:
                coro.close()
            except BaseException:   # clean-up outside the simulation may touch the missing loop
                pass
        if outcome['k'] == 'livelock' or outcome.get('internal'):
            import gc
            gc.collect()
    # end-of-run record (harness event, not part of the model's `ev`)
    fin = {'e': 'fin', 'a': 0, 'ok': outcome['k'] == 'ok', 'out': outcome}
    if outcome['k'] == 'ok':
        fin['free'] = probe_locks(world)
        fin['drain'] = drain_queues(world)
    fin['levels'] = [world.pools[i + 1].levels.a for i in range(world.nres)]
    fin['levelsb'] = [world.pools[i + 1].levels.b if nt == 2 else 0 for i in range(world.nres)]
    world.log.append(fin)
    return world.log, outcome


def drain_queues(world):
    """what a fresh consumer can still receive from every queue (fresh simulation, public API)"""
    res = {i: [] for i in world.queues}

    async def drain(i):
        async with until(time + 1):
            while True:
                res[i].append(unmsg(await world.queues[i]))
    try:
        usim.run(*[drain(i) for i in sorted(world.queues)])
    except BaseException:
        pass
    return [res[i] for i in sorted(res)]


def probe_locks(world):
    """`lock.available` for every lock, asked by a fresh activity in a fresh simulation"""
    res = []

    async def probe():
        for i in sorted(world.locks):
            res.append(bool(world.locks[i].available))
    try:
        usim.run(probe())
    except BaseException:
        return [False] * len(world.locks)
    return res
