"""Entry point:  check.py <Cnn> [--tier quick|thorough] [--replay file]"""
import argparse
import importlib
import os
import sys
import traceback

sys.path.insert(0, os.path.dirname(os.path.abspath(__file__)))
import core  # noqa: E402


def main():
    ap = argparse.ArgumentParser()
    ap.add_argument('prop')
    ap.add_argument('--tier', default=os.environ.get('VERIF_TIER', 'quick'))
    ap.add_argument('--replay')
    args = ap.parse_args()
    seed = int(os.environ.get('VERIF_SEED', '0'))
    mod = importlib.import_module('props.' + args.prop.lower())
    if args.replay:
        if hasattr(mod, 'replay'):
            return mod.replay(args.replay)
        return core.replay_file(args.replay, mod.OBS, args.prop)
    check = core.Check(args.prop, args.tier, seed, level=getattr(mod, 'LEVEL', 'model_checking'))
    try:
        mod.run(check)
    except core.MachineryError as err:
        print('MACHINERY-ERROR %s: %s' % (args.prop, err))
        return 2
    except Exception:
        traceback.print_exc()
        return 2
    return check.finish()


if __name__ == '__main__':
    sys.exit(main())
