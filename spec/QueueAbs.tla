------------------------------ MODULE QueueAbs ------------------------------
(* Abstract specification of usim.Queue (C10): what a queue IS, independent *)
(* of the event loop and of the read mutex that implements it.              *)
(*   buf     items accepted and not yet received (ids grow in put order)    *)
(*   closed  no further items are accepted                                  *)
(*   recv    receivers waiting for an item, oldest first                    *)
(*   nput    id of the last accepted item     last   id of the last item    *)
(*                                                   handed to a receiver   *)
(* Every accepted item is received exactly once, in put order, by the       *)
(* receivers in the order in which they asked:  `Exact` below.              *)
(* TLC checks that USim refines this module (USimRef.tla); Apalache proves  *)
(* IndInv inductive (MC_QueueAbs.tla).                                      *)
EXTENDS Naturals, Sequences

CONSTANT
  \* @type: Set(Int);
  Procs

VARIABLES
  \* @type: Seq(Int);
  buf,
  \* @type: Bool;
  closed,
  \* @type: Seq(Int);
  recv,
  \* @type: Int;
  nput,
  \* @type: Int;
  last

qvars == <<buf, closed, recv, nput, last>>

InRecv(p) == \E i \in DOMAIN recv : recv[i] = p
Init == buf = <<>> /\ closed = FALSE /\ recv = <<>> /\ nput = 0 /\ last = 0

\* an item is accepted (only while the queue is open)
Put == /\ ~closed
       /\ nput' = nput + 1 /\ buf' = Append(buf, nput + 1)
       /\ UNCHANGED <<closed, recv, last>>
Close == closed' = TRUE /\ UNCHANGED <<buf, recv, nput, last>>
\* a receiver starts to wait
Ask(p) == /\ ~InRecv(p)
          /\ recv' = Append(recv, p) /\ UNCHANGED <<buf, closed, nput, last>>
\* the OLDEST receiver takes the OLDEST item
Deliver == /\ recv # <<>> /\ buf # <<>>
           /\ last' = Head(buf) /\ buf' = Tail(buf) /\ recv' = Tail(recv)
           /\ UNCHANGED <<closed, nput>>
\* the oldest receiver finds the queue closed and empty: StreamClosed
EndOfStream == /\ recv # <<>> /\ buf = <<>> /\ closed
               /\ recv' = Tail(recv) /\ UNCHANGED <<buf, closed, nput, last>>
\* a receiver is cancelled / interrupted / closed while waiting: it takes nothing with it
Withdraw(p) == /\ InRecv(p)
               /\ recv' = SelectSeq(recv, LAMBDA x : x # p) /\ UNCHANGED <<buf, closed, nput, last>>

Next == Put \/ Close \/ Deliver \/ EndOfStream \/ \E p \in Procs : Ask(p) \/ Withdraw(p)
Spec == Init /\ [][Next]_qvars

----------------------------------------------------------------------------
\* the buffer holds exactly the items accepted after the last one received, in order: nothing lost, nothing twice
Exact == /\ Len(buf) = nput - last
         /\ \A i \in DOMAIN buf : buf[i] = last + i
NoDupRecv == \A i, j \in DOMAIN recv : recv[i] = recv[j] => i = j
TypeOK == /\ nput \in Nat /\ last \in Nat /\ last <= nput
          /\ \A i \in DOMAIN recv : recv[i] \in Procs
IndInv == TypeOK /\ Exact /\ NoDupRecv
\* items leave only at the head, one at a time, and only into the hands of the oldest receiver
HeadOnly == [][buf' # buf => (buf' = Append(buf, nput + 1) \/ (buf' = Tail(buf) /\ recv # <<>> /\ recv' = Tail(recv)))]_qvars
\* receivers never overtake each other
RecvOrder == [][\A i, j \in DOMAIN recv : i < j =>
                   LET a == recv[i]  b == recv[j] IN
                   ((\E i2 \in DOMAIN recv' : recv'[i2] = a) /\ (\E j2 \in DOMAIN recv' : recv'[j2] = b)) =>
                       \E i2, j2 \in DOMAIN recv' : i2 < j2 /\ recv'[i2] = a /\ recv'[j2] = b]_qvars
ClosedForGood == [][closed => closed']_qvars
=============================================================================
