------------------------------- MODULE ResAbs -------------------------------
(* Abstract specification of a usim resource supply (Resources / Capacities,*)
(* C12): a ledger, independent of the event loop, of borrow blocks, shares  *)
(* and helper activities.                                                   *)
(*   level   what is available now, one component per resource type         *)
(*   out     what has been taken out of the supply and is still to come     *)
(*           back (held in a share, or in flight to or from one)            *)
(* Nothing is created or destroyed by borrowing: every change of `level`    *)
(* is a Take of something that was available (no overdraft, all types in    *)
(* one step), a Give of something that was out, or an explicit Change of    *)
(* the supply (increase / decrease / set).  `Forfeit` is the named          *)
(* deviation of the implementation (known finding KF-C12-interrupted-       *)
(* transfer): an amount that is out stops being owed without coming back.   *)
(* TLC checks that USim refines this module (USimRef.tla) and that on the   *)
(* configurations without interrupts no step is a Forfeit (`NoForfeit`);    *)
(* Apalache proves IndInv inductive (MC_ResAbs.tla).                        *)
EXTENDS Integers, Sequences

VARIABLES
  \* @type: <<Int, Int>>;
  level,
  \* @type: <<Int, Int>>;
  out

\* @type: <<<<Int, Int>>, <<Int, Int>>>>;
rvars == <<level, out>>

\* @type: (<<Int, Int>>, <<Int, Int>>) => <<Int, Int>>;
Plus(x, y) == <<x[1] + y[1], x[2] + y[2]>>
\* @type: (<<Int, Int>>, <<Int, Int>>) => <<Int, Int>>;
Minus(x, y) == <<x[1] - y[1], x[2] - y[2]>>
\* @type: (<<Int, Int>>, <<Int, Int>>) => Bool;
Covers(x, y) == x[1] >= y[1] /\ x[2] >= y[2]
\* @type: <<Int, Int>>;
Nil == <<0, 0>>
Amounts == {a \in Nat \X Nat : a # Nil}

\* a borrow / claim succeeds: only if EVERY type is available, and all types leave in one step
Take(a) == /\ Covers(level, a)
           /\ level' = Minus(level, a) /\ out' = Plus(out, a)
\* something that was out comes back
Give(a) == /\ Covers(out, a)
           /\ level' = Plus(level, a) /\ out' = Minus(out, a)
\* increase / decrease / set of the supply itself: never below zero
Change(v) == /\ Covers(v, Nil) /\ v # level
             /\ level' = v /\ out' = out
\* DEVIATION: an interrupted transfer - the amount is no longer owed but has not come back
Forfeit(a) == /\ Covers(out, a)
              /\ out' = Minus(out, a) /\ level' = level
\* bookkeeping only: an amount starts to be owed before it has physically left (never happens in USim; kept out of Next)

Next == \E a \in Amounts : Take(a) \/ Give(a) \/ Forfeit(a) \/ Change(a) \/ Change(Nil)
\* The same relation without the quantifier over all amounts (TLC cannot enumerate Nat \X Nat): the amount of a step
\* is determined by the step.  ResAbsEq.tla has TLC check NextD <=> Next on every pair of states of a bounded ledger.
\* @type: (<<Int, Int>>, <<Int, Int>>, <<Int, Int>>, <<Int, Int>>) => Bool;
StepRel(l, o, l2, o2) ==
         \/ LET a == Minus(l, l2) IN a # Nil /\ Covers(a, Nil) /\ Covers(l, a) /\ o2 = Plus(o, a)        \* Take
         \/ LET a == Minus(l2, l) IN a # Nil /\ Covers(a, Nil) /\ Covers(o, a) /\ o2 = Minus(o, a)       \* Give
         \/ LET a == Minus(o, o2) IN a # Nil /\ Covers(a, Nil) /\ Covers(o, a) /\ l2 = l                 \* Forfeit
         \/ Covers(l2, Nil) /\ l2 # l /\ o2 = o                                                       \* Change
NextD == StepRel(level, out, level', out')
Spec == [][NextD]_rvars
Init == level \in Nat \X Nat /\ out = Nil

----------------------------------------------------------------------------
NonNegative == Covers(level, Nil) /\ Covers(out, Nil)
IndInv == NonNegative
\* the level moves only together with the ledger (Take / Give) or by an explicit Change; the ledger never moves alone
NoForfeit == [][out' # out => Plus(level', out') = Plus(level, out)]_rvars
\* without Change steps the sum is constant (used on configurations without rchange)
Conserved == [][Plus(level', out') = Plus(level, out)]_rvars
=============================================================================
