------------------------------- MODULE ObsC20 -------------------------------
(* C20 - Every awaitable operation yields to the other runnable activities  *)
(*       at least once.  An activity with a pending `await instant` is      *)
(*       runnable; it must get its turn before an operation begun after it  *)
(*       completes (or the clock must have advanced).                       *)
EXTENDS ObsBase
Ids == 1..16
\* operations with the obligation (C20's list); lock entry/exit, spawn, cancel and probes are synchronous
Obliged == {"instant", "sleep", "fset", "await_f", "await_c", "await_t", "await_s", "await_lvl", "put", "get", "qclose",
            "cput", "cget", "cclose", "borrow", "claim", "inc", "dec", "rset", "tset", "transfer",
            "tick", "flow"}
VARIABLES tid, l, spin, owe, plain, bad
vars == <<tid, l, spin, owe, plain, bad>>
\* spin = activities with a pending `await instant` (runnable now)
\* owe[a] = [on, t, who]: activity a began an obliged op at t while `who` were runnable and have not run since
NoOwe == [on |-> FALSE, t |-> 0, who |-> {}]
\* plain = ids of plain Scope blocks.  Leaving an until() block may be cut short by its interrupt, which can be
\* queued ahead of the other runnable activities; that is an interruption, not a completion of the operation
Init == /\ tid \in 1..N /\ l = 1 /\ bad = "" /\ spin = {} /\ owe = [a \in Ids |-> NoOwe] /\ plain = {}
Fail(c) == bad' = c /\ UNCHANGED <<spin, owe>>
IsLeaveScope(e) == F(e, "op", "") = "leave" /\ F(e, "blk", "") = "scope" /\ F(e, "id", 0) \in plain
Step ==
  /\ l <= Len(Traces[tid]) /\ bad = ""
  /\ l' = l + 1 /\ UNCHANGED tid
  /\ plain' = IF Traces[tid][l].e = "b" /\ F(Traces[tid][l], "op", "") = "open" /\ Traces[tid][l].kind = "scope"
               THEN plain \cup {Traces[tid][l].s} ELSE plain
  /\ LET e == Traces[tid][l] a == F(e, "a", 0) op == F(e, "op", "") t == F(e, "t", 0)
         \* whoever produces an event has had a turn
         owe1 == [x \in Ids |-> IF owe[x].on THEN [owe[x] EXCEPT !.who = @ \ {a}] ELSE owe[x]] IN
     IF e.e = "fin" \/ a \notin Ids THEN UNCHANGED <<spin, owe, bad>>
     ELSE CASE e.e = "b" /\ (op \in Obliged \/ IsLeaveScope(e)) ->
                 /\ owe' = [owe1 EXCEPT ![a] = [on |-> TRUE, t |-> t, who |-> spin \ {a}]]
                 /\ spin' = IF op = "instant" THEN spin \cup {a} ELSE spin
                 /\ UNCHANGED bad
            [] e.e = "r" /\ (op \in Obliged \/ IsLeaveScope(e)) /\ owe[a].on ->
                 IF t = owe[a].t /\ owe1[a].who # {} THEN Fail("C20.no_yield")
                 ELSE owe' = [owe1 EXCEPT ![a] = NoOwe] /\ spin' = spin \ {a} /\ UNCHANGED bad
            [] e.e \in {"x", "u", "end"} ->
                 owe' = [owe1 EXCEPT ![a] = NoOwe] /\ spin' = spin \ {a} /\ UNCHANGED bad
            [] OTHER -> owe' = owe1 /\ UNCHANGED <<spin, bad>>
Spec == Init /\ [][Step]_vars
Report == (bad # "") => PrintT(<<"V", tid, bad, l - 1>>)
=============================================================================
