-------------------------------- MODULE RunM --------------------------------
(* run() and the per-thread simulation state (C15).                         *)
(* usim.run() builds a Loop and executes it under                           *)
(*     with __USIM_STATE__.assign(loop):   (threading.local; saves the      *)
(* outer loop, restores it on ANY exit).  Threads run scripts of            *)
(* simulations (possibly nested inside an activity); TLC explores every     *)
(* interleaving of their enter / exit / probe steps.                        *)
(* Shared = TRUE is the named deviation "state is not thread-local".        *)
EXTENDS Naturals, Sequences, FiniteSets, TLC, Json
CONSTANTS Threads, MaxDepth, MaxRuns, Shared
VARIABLES stack,   \* thread -> Seq of loop ids entered and not yet left (innermost last)
          cur,     \* thread -> loop id that `time.now` resolves to (0 = MissingLoop); one shared cell if Shared
          saved,   \* loop id -> the loop that assign() will restore when this loop is left
          nloops, ev
vars == <<stack, cur, saved, nloops, ev>>
Cell(th) == IF Shared THEN CHOOSE t \in Threads : TRUE ELSE th
Init == /\ stack = [t \in Threads |-> <<>>] /\ cur = [t \in Threads |-> 0]
        /\ saved = [i \in 1..MaxRuns |-> 0] /\ nloops = 0 /\ ev = <<>>
Enter(th) ==
  /\ Len(stack[th]) < MaxDepth /\ nloops < MaxRuns
  /\ nloops' = nloops + 1
  /\ saved' = [saved EXCEPT ![nloops + 1] = cur[Cell(th)]]
  /\ cur' = [cur EXCEPT ![Cell(th)] = nloops + 1]
  /\ stack' = [stack EXCEPT ![th] = Append(@, nloops + 1)]
  /\ ev' = <<"enter", th, nloops + 1>>
Exit(th) ==          \* normally, with an exception or with ActivityLeak alike
  /\ stack[th] # <<>>
  /\ LET lp == stack[th][Len(stack[th])] IN
     /\ cur' = [cur EXCEPT ![Cell(th)] = saved[lp]]
     /\ stack' = [stack EXCEPT ![th] = SubSeq(@, 1, Len(@) - 1)]
     /\ ev' = <<"exit", th, lp>>
  /\ UNCHANGED <<saved, nloops>>
Probe(th) == /\ ev' = <<"probe", th, cur[Cell(th)]>> /\ UNCHANGED <<stack, cur, saved, nloops>>
Next == \E th \in Threads : Enter(th) \/ Exit(th) \/ Probe(th)
Spec == Init /\ [][Next]_vars
\* a thread sees exactly the innermost simulation it is running, and none when it runs none
Isolation == \A th \in Threads :
   cur[Cell(th)] = IF stack[th] = <<>> THEN 0 ELSE stack[th][Len(stack[th])]
ProbeSeesOwn == (ev # <<>> /\ ev[1] = "probe") =>
   ev[3] = IF stack[ev[2]] = <<>> THEN 0 ELSE stack[ev[2]][Len(stack[ev[2]])]
=============================================================================
