------------------------------- MODULE ObsC04 -------------------------------
(* C04 - No task outlives its scope (structured concurrency containment)    *)
EXTENDS ObsBase
Ids == 1..16
VARIABLES tid, l, sco, tsk, bad, aw
vars == <<tid, l, sco, tsk, bad, aw>>
\* aw: awaits of tasks in progress, <<awaiter, task>>
\* sco[s] = [owner, kind, exited, volflag]   tsk[k] = [s, vol, started, ended, how, cancelled]
NoScope == [owner |-> 0, kind |-> "", exited |-> FALSE, volflag |-> FALSE]
NoTask == [s |-> 0, vol |-> FALSE, started |-> FALSE, ended |-> FALSE, how |-> "", cancelled |-> FALSE]
Init == /\ tid \in 1..N /\ l = 1 /\ bad = ""
        /\ sco = [s \in Ids |-> NoScope] /\ tsk = [k \in Ids |-> NoTask] /\ aw = {}

\* is activity a (transitively) contained in a scope that has already been left?
RECURSIVE Escaped(_, _)
Escaped(a, fuel) ==
  IF fuel = 0 \/ a \notin Ids \/ tsk[a].s = 0 THEN FALSE
  ELSE sco[tsk[a].s].exited \/ Escaped(sco[tsk[a].s].owner, fuel - 1)

KidsOf(s) == {k \in Ids : tsk[k].s = s}
Live(k) == tsk[k].started /\ ~tsk[k].ended
\* a non-volatile child the scope still has to wait for
Owed(k) == ~tsk[k].vol /\ ~tsk[k].ended /\ ~(~tsk[k].started /\ tsk[k].cancelled)

Fail(c) == bad' = c /\ UNCHANGED <<sco, tsk>>
Step ==
  /\ l <= Len(Traces[tid]) /\ bad = ""
  /\ l' = l + 1 /\ UNCHANGED tid
  /\ aw' = LET e == Traces[tid][l] a == F(e, "a", 0) op == F(e, "op", "") IN
           IF op = "await_t" /\ e.e = "b" THEN aw \cup {<<a, F(e, "k", 0)>>}
           ELSE IF op = "await_t" /\ e.e \in {"r", "x", "u"} THEN {w \in aw : w[1] # a}
           ELSE IF e.e = "end" THEN {w \in aw : w[1] # a} ELSE aw
  /\ LET e == Traces[tid][l] a == F(e, "a", 0) op == F(e, "op", "")
         k0 == F(e, "k", 0)
         tk1 == IF a \in Ids /\ tsk[a].s # 0 /\ e.e \in {"b", "r", "x", "p"} THEN [tsk EXCEPT ![a].started = TRUE] ELSE tsk IN
     IF e.e = "fin" THEN
        \* every task of a block that has been left is done: nobody can still be waiting for it when nothing is left to run
        (IF e.ok /\ \E w \in aw : w[2] \in Ids /\ tsk[w[2]].s # 0 /\ sco[tsk[w[2]].s].exited
         THEN Fail("C04.child_not_done") ELSE UNCHANGED <<sco, tsk, bad>>)
     ELSE IF a \in Ids /\ Escaped(a, 8) THEN Fail("C04.ran_after_exit")
     ELSE CASE e.e = "b" /\ op = "open" ->
                 /\ sco' = [sco EXCEPT ![e.s] = [owner |-> a, kind |-> e.kind, exited |-> FALSE, volflag |-> FALSE]]
                 /\ tsk' = tk1 /\ UNCHANGED bad
            [] e.e = "b" /\ op = "do" /\ e.k # 0 ->
                 IF sco[e.s].exited THEN Fail("C04.spawn_into_closed")
                 ELSE /\ tsk' = [tk1 EXCEPT ![e.k] = [NoTask EXCEPT !.s = e.s, !.vol = e.vol]]
                      /\ UNCHANGED <<sco, bad>>
            [] e.e = "b" /\ op = "cancel" ->
                 /\ tsk' = [tk1 EXCEPT ![e.k].cancelled = TRUE] /\ UNCHANGED <<sco, bad>>
            [] e.e = "end" /\ a \in Ids /\ tsk[a].s # 0 ->
                 LET s == tsk[a].s IN
                 /\ tsk' = [tsk EXCEPT ![a].ended = TRUE, ![a].how = e.how, ![a].started = TRUE]
                 \* a volatile child is closed while a non-volatile sibling is still owed a graceful end
                 /\ sco' = IF tsk[a].vol /\ e.how = "closed" /\ \E j \in KidsOf(s) : j # a /\ Owed(j)
                           THEN [sco EXCEPT ![s].volflag = TRUE] ELSE sco
                 /\ UNCHANGED bad
            [] e.e \in {"r", "x", "u"} /\ F(e, "blk", "") = "scope" /\ op \in {"leave", "body"} ->
                 LET s == e.id graceful == e.e = "r" /\ op = "leave" /\ sco[s].kind = "scope" IN
                 IF \E k \in KidsOf(s) : Live(k) THEN Fail("C04.child_not_done")
                 ELSE IF graceful /\ \E k \in KidsOf(s) : ~tsk[k].vol /\ tsk[k].ended /\ tsk[k].how = "closed"
                      THEN Fail("C04.graceful_closed_child")
                 ELSE IF graceful /\ \E k \in KidsOf(s) : ~tsk[k].vol /\ ~tsk[k].started /\ ~tsk[k].cancelled
                      THEN Fail("C04.graceful_lost_child")
                 ELSE IF graceful /\ sco[s].volflag THEN Fail("C04.volatile_closed_early")
                 ELSE /\ sco' = [sco EXCEPT ![s].exited = TRUE] /\ tsk' = tk1 /\ UNCHANGED bad
            [] OTHER -> tsk' = tk1 /\ UNCHANGED <<sco, bad>>
Spec == Init /\ [][Step]_vars
Report == (bad # "") => PrintT(<<"V", tid, bad, l - 1>>)
=============================================================================
