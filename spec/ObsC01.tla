------------------------------- MODULE ObsC01 -------------------------------
(* C01 - Virtual time is monotone and every timed wait resumes at exactly   *)
(*       its date                                                           *)
EXTENDS ObsBase
Ids == 1..48
VARIABLES tid, l, now, beg, due, sdue, bad
vars == <<tid, l, now, beg, due, sdue, bad>>
\* beg[a] = the timed wait in progress of activity a: [on, t, kind, arg]
\* due[k] = start date of a delayed task k (0 = none / consumed), dset = whether set
Fail(c) == bad' = c /\ UNCHANGED <<beg, due>>
\* sdue[s]: an until(<date condition>) block that is open and the date at which its notification fires
NoS == [on |-> FALSE, due |-> 0]
Max(x, y) == IF x > y THEN x ELSE y
\* expected resume time of a wait, or -1 encoded as [never |-> TRUE]
Never(w) == \/ (w.kind = "eq" /\ w.t > w.arg) \/ (w.kind = "lt" /\ w.t >= w.arg) \/ w.kind = "etern"
Expected(w) == CASE w.kind = "sleep" -> w.t + w.arg
                 [] w.kind = "ge" -> Max(w.t, w.arg)
                 [] w.kind = "eq" -> w.arg
                 [] OTHER -> w.t          \* instant, lt (true now): same time step
NoWait == [on |-> FALSE, t |-> 0, kind |-> "", arg |-> 0, due |-> 0, never |-> FALSE]
\* the expected resume date: computed here from the op for integer dates; for float dates the harness supplies it
\* (`due`, computed with the same float addition as the loop and mapped to the rank among all dates of the trace)
Mk(e, t, kind, arg) ==
  LET w == [on |-> TRUE, t |-> t, kind |-> kind, arg |-> arg, due |-> 0, never |-> FALSE] IN
  IF "rank" \in DOMAIN e
  THEN [w EXCEPT !.due = F(e, "due", t), !.never = F(e, "never", FALSE)]
  ELSE [w EXCEPT !.due = Expected(w), !.never = Never(w)]
Init == /\ tid \in 1..N /\ l = 1 /\ bad = "" /\ now = 0
        /\ beg = [a \in Ids |-> NoWait] /\ due = [k \in Ids |-> [on |-> FALSE, t |-> 0]]
        /\ sdue = [s \in Ids |-> NoS]
Step ==
  /\ l <= Len(Traces[tid]) /\ bad = ""
  /\ l' = l + 1 /\ UNCHANGED tid
  /\ sdue' = LET e0 == Traces[tid][l] o == F(e0, "op", "") t0 == F(e0, "t", now) IN
             IF e0.e = "b" /\ o = "open" /\ e0.kind = "until_c" /\ e0.s \in Ids /\ e0.c[1] \in {"ge", "eq"}
             THEN (IF "rank" \in DOMAIN e0
                   THEN (IF "due" \in DOMAIN e0 THEN [sdue EXCEPT ![e0.s] = [on |-> TRUE, due |-> e0.due]] ELSE sdue)
                   ELSE IF e0.c[1] = "eq" /\ t0 > e0.c[2] THEN sdue
                   ELSE [sdue EXCEPT ![e0.s] = [on |-> TRUE, due |-> IF t0 > e0.c[2] THEN t0 ELSE e0.c[2]]])
             ELSE IF F(e0, "blk", "") = "scope" /\ o \in {"leave", "body"} /\ e0.e \in {"r", "x", "u"} /\ e0.id \in Ids
                  THEN [sdue EXCEPT ![e0.id] = NoS]
             ELSE sdue
  /\ LET e == Traces[tid][l] a == F(e, "a", 0) op == F(e, "op", "") t == F(e, "t", now) IN
     IF e.e = "fin" THEN
        \* a block whose date has been reached cannot still be open when the run ends normally
        (IF e.ok /\ \E s \in Ids : sdue[s].on /\ sdue[s].due <= now THEN Fail("C01.until_date_missed") /\ now' = now
         \* the run was killed by an internal error of the framework while timed waits were pending: they never resume
         ELSE IF ~e.ok /\ e.out.k = "exc" /\ e.out.internal /\ \E b \in Ids : beg[b].on /\ ~beg[b].never
              THEN Fail("C01.timed_wait_killed") /\ now' = now
         ELSE UNCHANGED <<now, beg, due, bad>>)
     \* an until(date) block ends no later than its date
     ELSE IF F(e, "blk", "") = "scope" /\ op \in {"leave", "body"} /\ e.e \in {"r", "x", "u"} /\ e.id \in Ids
             /\ sdue[e.id].on /\ t > sdue[e.id].due THEN Fail("C01.until_date_missed") /\ now' = now
     ELSE IF t < now THEN Fail("C01.clock_decreased") /\ now' = now
     ELSE /\ now' = t
          /\ IF a \in Ids /\ due[a].on /\ e.e \in {"b", "p", "end"} /\ t # due[a].t /\ ~(e.e = "end" /\ e.how # "ok")
             THEN Fail("C01.delayed_start_time")      \* do(after=d): first code of the task at spawn time + d
             ELSE LET due1 == IF a \in Ids /\ due[a].on THEN [due EXCEPT ![a].on = FALSE] ELSE due IN
             CASE e.e = "b" /\ op = "sleep" ->
                    beg' = [beg EXCEPT ![a] = Mk(e, t, "sleep", IF "rank" \in DOMAIN e THEN 0 ELSE e.d)] /\ due' = due1 /\ UNCHANGED bad
               [] e.e = "b" /\ op = "instant" ->
                    beg' = [beg EXCEPT ![a] = Mk(e, t, "inst", 0)] /\ due' = due1 /\ UNCHANGED bad
               [] e.e = "b" /\ op = "await_c" /\ e.c[1] \in {"ge", "eq", "lt", "etern"} ->
                    beg' = [beg EXCEPT ![a] = Mk(e, t, e.c[1], IF Len(e.c) > 1 /\ ~("rank" \in DOMAIN e) THEN e.c[2] ELSE 0)] /\ due' = due1 /\ UNCHANGED bad
               [] e.e = "r" /\ a \in Ids /\ beg[a].on /\ op \in {"sleep", "instant", "await_c"} ->
                    IF beg[a].never THEN Fail("C01.resumed_impossible")
                    ELSE IF t # beg[a].due THEN Fail("C01.resume_time")
                    ELSE beg' = [beg EXCEPT ![a] = NoWait] /\ due' = due1 /\ UNCHANGED bad
               [] e.e \in {"x", "u"} /\ a \in Ids /\ beg[a].on /\ op \in {"sleep", "instant", "await_c"} ->
                    beg' = [beg EXCEPT ![a] = NoWait] /\ due' = due1 /\ UNCHANGED bad
               [] e.e = "b" /\ op = "do" /\ e.k # 0 ->
                    due' = [due1 EXCEPT ![e.k] = [on |-> TRUE, t |-> IF "rank" \in DOMAIN e THEN e.due ELSE t + e.d]] /\ UNCHANGED <<beg, bad>>
               [] OTHER -> due' = due1 /\ UNCHANGED <<beg, bad>>
Spec == Init /\ [][Step]_vars
Report == (bad # "") => PrintT(<<"V", tid, bad, l - 1>>)
=============================================================================
