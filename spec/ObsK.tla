-------------------------------- MODULE ObsK --------------------------------
(* Kernel-level monitor (C01, C02): replays the scheduling decisions of the *)
(* real Loop against the queue discipline of USim's kernel:                 *)
(*   - activations are queued for a date that is not in the past            *)
(*   - the clock never decreases, and does not move past a date that still  *)
(*     holds a live (not revoked) activation                                *)
(*   - activations of one date are delivered in the order they were queued, *)
(*     revoked ones are skipped, nothing is delivered that was not queued   *)
EXTENDS ObsBase
VARIABLES tid, l, q, dead, now, bad
vars == <<tid, l, q, dead, now, bad>>
\* q: Seq of [tgt, sig, at] still queued (in queueing order); dead: revoked signals
Init == tid \in 1..N /\ l = 1 /\ bad = "" /\ q = <<>> /\ dead = {} /\ now = 0
Fail(c) == bad' = c /\ UNCHANGED <<q, dead, now>>
Live(x) == x.sig = 0 \/ x.sig \notin dead
Step ==
  /\ l <= Len(Traces[tid]) /\ bad = ""
  /\ l' = l + 1 /\ UNCHANGED tid
  /\ LET e == Traces[tid][l] IN
     CASE e.e = "s" ->
            IF e.at < now THEN Fail("C01.scheduled_in_past")
            ELSE q' = Append(q, [tgt |-> e.tgt, sig |-> e.sig, at |-> e.at]) /\ UNCHANGED <<dead, now, bad>>
       [] e.e = "rv" -> dead' = dead \cup {e.sig} /\ UNCHANGED <<q, now, bad>>
       [] e.e = "a" ->
            LET same == SelectSeq(q, LAMBDA x : x.at = e.t /\ Live(x))      \* live activations of this date, in order
                early == SelectSeq(q, LAMBDA x : x.at < e.t /\ Live(x)) IN
            IF e.t < now THEN Fail("C01.clock_decreased")
            ELSE IF early # <<>> THEN Fail("C01.left_work_behind")
            ELSE IF same = <<>> THEN Fail("C02.delivered_without_queueing")
            ELSE IF Head(same).tgt # e.tgt \/ Head(same).sig # e.sig THEN Fail("C02.fifo")
            ELSE /\ now' = e.t
                 \* drop the delivered activation and everything dead before it
                 /\ q' = LET i == CHOOSE i \in 1..Len(q) : q[i] = Head(same) /\ \A j \in 1..(i - 1) : q[j] # Head(same) IN
                         SelectSeq(SubSeq(q, 1, i - 1), LAMBDA x : Live(x) /\ x.at >= e.t) \o SubSeq(q, i + 1, Len(q))
                 /\ UNCHANGED <<dead, bad>>
       [] OTHER -> UNCHANGED <<q, dead, now, bad>>
Spec == Init /\ [][Step]_vars
Report == (bad # "") => PrintT(<<"V", tid, bad, l - 1>>)
=============================================================================
