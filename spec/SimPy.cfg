SPECIFICATION Spec
CONSTANTS
  MaxLen = 4
INVARIANT WithinCapacity
INVARIANT Conserved
INVARIANT ItemsOnce
INVARIANT Settled
CHECK_DEADLOCK FALSE
