-------------------------------- MODULE Pipe --------------------------------
(* Scenario space for C13 and sanity properties of the fluid semantics.     *)
EXTENDS PipeSem, Json
CONSTANTS MaxX, Throughputs, Volumes, Limits, Starts, Cancels
VARIABLES sc
Xfer == [s : Starts, v : Volumes, l : Limits, c : Cancels]
Init == sc \in [P : Throughputs, xs : UNION {[1..n -> Xfer] : n \in 1..MaxX}]
Next == UNCHANGED sc
Spec == Init /\ [][Next]_sc
Out == Outcome(sc.P, sc.xs)
\* every transfer ends (completes or is cancelled)
AllEnd == \A i \in 1..Len(sc.xs) : Out.st[i] \in {"done", "cancelled"}
\* a lone transfer takes volume / min(limit, P); zero volumes take no time
LoneTime == (Len(sc.xs) = 1 /\ sc.xs[1].c = 0 /\ sc.P > 0 /\ ~Unb(sc.P)) =>
   LET x == sc.xs[1] lim == IF Limit(sc.P, x) > sc.P THEN sc.P ELSE Limit(sc.P, x) IN
   Out.end[1] = Add(R(x.s), Norm(x.v, lim))
ZeroTakesNoTime == \A i \in 1..Len(sc.xs) : (sc.xs[i].v = 0 /\ Out.st[i] = "done") => Out.end[i] = R(sc.xs[i].s)
\* never faster than its own limit
NotFasterThanLimit == \A i \in 1..Len(sc.xs) :
   (Out.st[i] = "done" /\ Limit(sc.P, sc.xs[i]) > 0 /\ ~IsHuge(sc.xs[i]) /\ ~(Unb(sc.P) /\ sc.xs[i].l = 0)) => Leq(Add(R(sc.xs[i].s), Norm(sc.xs[i].v, Limit(sc.P, sc.xs[i]))), Out.end[i])
Emit == PrintT(<<"W", ToJson(sc)>>)
=============================================================================
