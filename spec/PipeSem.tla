------------------------------ MODULE PipeSem ------------------------------
(* Fluid reference semantics of Pipe.transfer (C13), in exact rationals.    *)
(* At every moment each active transfer i progresses at                     *)
(*     rate_i = min(limit_i, limit_i * P / sum of all active limits)        *)
(* and completes when the integral of its rate reaches its volume.          *)
EXTENDS Integers, Sequences, FiniteSets, TLC

\* ---- rationals <<num, den>>, den > 0, in lowest terms
RECURSIVE GCD(_, _)
GCD(a, b) == IF b = 0 THEN a ELSE GCD(b, a % b)
Abs(x) == IF x < 0 THEN -x ELSE x
Norm(n, d) == LET g == GCD(Abs(n), d) IN IF n = 0 THEN <<0, 1>> ELSE <<n \div g, d \div g>>
R(n) == <<n, 1>>
Add(x, y) == Norm(x[1] * y[2] + y[1] * x[2], x[2] * y[2])
Sub(x, y) == Norm(x[1] * y[2] - y[1] * x[2], x[2] * y[2])
Mul(x, y) == Norm(x[1] * y[1], x[2] * y[2])
Div(x, y) == Norm(x[1] * y[2], x[2] * y[1])          \* y > 0
Less(x, y) == x[1] * y[2] < y[1] * x[2]
Leq(x, y) == x[1] * y[2] <= y[1] * x[2]
MinR(S) == CHOOSE x \in S : \A y \in S : Leq(x, y)

\* ---- a scenario: P = pipe throughput (0 = unbounded), xs = transfers [s, v, l, c]:
\*      start date s, volume v, limit l (0 = the pipe's throughput), c > 0: cancelled at date s + c
\*      limit Huge stands for a "practically unlimited" transfer (the harness passes 1e17): the fluid model is
\*      taken in the limit l -> infinity - while such a transfer is active on a bounded pipe, the huge ones share
\*      the whole throughput equally and everybody else stands still (their progress, of relative order 1e-17,
\*      is far below the property's floating point tolerance)
Huge == 99
IsHuge(x) == x.l = Huge
\*      throughput 0 is an UnboundedPipe, throughput InfP a Pipe(throughput=math.inf): both never congest
InfP == 98
Unb(P) == P = 0 \/ P = InfP
Limit(P, x) == IF x.l = 0 THEN P ELSE x.l
\* rate of transfer i given the set `run` of active transfers
Rate(P, xs, run, i) ==
  LET lim == Limit(P, xs[i])
      huge == {j \in run : IsHuge(xs[j])} IN
  IF Unb(P) THEN R(IF xs[i].l = 0 THEN 0 ELSE lim)               \* unbounded pipe: own limit (0 = infinite)
  ELSE IF huge # {} THEN (IF i \in huge THEN Norm(P, Cardinality(huge)) ELSE R(0))
  ELSE LET dem == LET RECURSIVE sum(_) sum(S) == IF S = {} THEN 0 ELSE
                        LET j == CHOOSE j \in S : TRUE IN Limit(P, xs[j]) + sum(S \ {j}) IN sum(run) IN
       IF dem > P THEN Norm(lim * P, dem) ELSE R(lim)

\* event-driven evaluation: st[i] in {"wait", "run", "done", "cancelled"}, rem[i] remaining volume, end[i] end date
RECURSIVE Fluid(_, _, _, _, _, _, _)
Fluid(P, xs, t, st, rem, end, fuel) ==
  LET I == 1..Len(xs)
      run == {i \in I : st[i] = "run"}
      rate == [i \in I |-> IF i \in run THEN Rate(P, xs, run, i) ELSE R(0)]
      starts == {R(xs[i].s) : i \in {j \in I : st[j] = "wait"}}
      cancels == {R(xs[i].s + xs[i].c) : i \in {j \in I : st[j] \in {"wait", "run"} /\ xs[j].c > 0}}
      finish == {Add(t, Div(rem[i], rate[i])) : i \in {j \in run : rate[j][1] > 0}}
      cand == starts \cup cancels \cup finish IN
  IF cand = {} \/ fuel = 0 THEN [st |-> st, end |-> end]
  ELSE LET tn == MinR(cand)
           rem1 == [i \in I |-> IF i \in run THEN Sub(rem[i], Mul(rate[i], Sub(tn, t))) ELSE rem[i]]
           \* completions, cancellations, then starts at tn (a zero volume or an infinite rate ends at once)
           st1 == [i \in I |-> IF st[i] = "run" /\ rem1[i][1] = 0 THEN "done"
                               ELSE IF st[i] \in {"wait", "run"} /\ xs[i].c > 0 /\ R(xs[i].s + xs[i].c) = tn THEN "cancelled"
                               ELSE IF st[i] = "wait" /\ R(xs[i].s) = tn
                                    THEN (IF xs[i].v = 0 \/ (Unb(P) /\ (xs[i].l = 0 \/ IsHuge(xs[i]))) THEN "done" ELSE "run")
                               ELSE st[i]]
           end1 == [i \in I |-> IF st1[i] # st[i] /\ st1[i] \in {"done", "cancelled"} THEN tn ELSE end[i]] IN
       Fluid(P, xs, tn, st1, rem1, end1, fuel - 1)

Outcome(P, xs) ==
  Fluid(P, xs, R(0), [i \in 1..Len(xs) |-> "wait"], [i \in 1..Len(xs) |-> R(xs[i].v)],
        [i \in 1..Len(xs) |-> R(0)], 4 * Len(xs) + 2)
=============================================================================
