------------------------------- MODULE ObsC10 -------------------------------
(* C10 - Queue delivers every accepted item exactly once, in order, to      *)
(*       waiters in order                                                   *)
EXTENDS ObsBase
Qs == 1..2
VARIABLES tid, l, acc, rcv, wait, closed, bad
vars == <<tid, l, acc, rcv, wait, closed, bad>>
\* acc[q] accepted items in put order; rcv[q] received items in receive order;
\* wait[q] activities with a receive in progress, oldest first
Init == /\ tid \in 1..N /\ l = 1 /\ bad = ""
        /\ acc = [q \in Qs |-> <<>>] /\ rcv = [q \in Qs |-> <<>>] /\ wait = [q \in Qs |-> <<>>]
        /\ closed = [q \in Qs |-> FALSE]
Fail(c) == bad' = c /\ UNCHANGED <<acc, rcv, wait, closed>>
Skip == UNCHANGED <<acc, rcv, wait, closed, bad>>
\* the final drain lists one entry per queue the world has; a queue that does not exist is empty
Dr(e, q) == IF q <= Len(e.drain) THEN e.drain[q] ELSE <<>>
Step ==
  /\ l <= Len(Traces[tid]) /\ bad = ""
  /\ l' = l + 1 /\ UNCHANGED tid
  /\ LET e == Traces[tid][l] a == F(e, "a", 0) op == F(e, "op", "") IN
     CASE e.e = "b" /\ op = "put" ->
            \* v = 0: the puppet saw the queue closed before the call
            IF e.v = 0 THEN Skip ELSE acc' = [acc EXCEPT ![e.q] = Append(@, e.v)] /\ UNCHANGED <<rcv, wait, closed, bad>>
       [] e.e = "b" /\ op = "qclose" ->
            closed' = [closed EXCEPT ![e.q] = TRUE] /\ UNCHANGED <<acc, rcv, wait, bad>>
       [] e.e = "b" /\ op = "get" ->
            wait' = [wait EXCEPT ![e.q] = Append(@, a)] /\ UNCHANGED <<acc, rcv, closed, bad>>
       [] e.e = "r" /\ op = "get" ->
            LET q == e.q n == Len(rcv[q]) IN
            IF InSeq(rcv[q], e.v) THEN Fail("C10.duplicate")
            ELSE IF ~InSeq(acc[q], e.v) THEN Fail("C10.phantom_item")
            ELSE IF acc[q][n + 1] # e.v THEN Fail("C10.order")
            ELSE IF wait[q] = <<>> \/ Head(wait[q]) # a THEN Fail("C10.receiver_order")
            ELSE /\ rcv' = [rcv EXCEPT ![q] = Append(@, e.v)] /\ wait' = [wait EXCEPT ![q] = Tail(@)]
                 /\ UNCHANGED <<acc, closed, bad>>
       [] e.e = "x" /\ op = "get" ->
            LET q == e.q IN
            IF e.exc[1] # "streamclosed" THEN Fail("C10.unexpected_exception")
            ELSE IF ~closed[q] THEN Fail("C10.closed_semantics")           \* StreamClosed on an open queue
            ELSE IF Len(rcv[q]) # Len(acc[q]) THEN Fail("C10.closed_semantics")   \* buffered items not delivered first
            ELSE wait' = [wait EXCEPT ![q] = DropFirst(@, a)] /\ UNCHANGED <<acc, rcv, closed, bad>>
       [] e.e = "u" /\ op = "get" ->
            wait' = [wait EXCEPT ![e.q] = DropFirst(@, a)] /\ UNCHANGED <<acc, rcv, closed, bad>>
       [] e.e = "r" /\ op = "put" ->
            \* a put that the puppet issued on a closed queue (v = 0) must not succeed
            IF Traces[tid][l - 1].e = "b" /\ F(Traces[tid][l - 1], "op", "") = "put" /\ Traces[tid][l - 1].a = a
               /\ Traces[tid][l - 1].v = 0
            THEN Fail("C10.put_on_closed_accepted") ELSE Skip
       [] e.e = "x" /\ op = "put" ->
            IF closed[F(Traces[tid][l - 1], "q", 1)] THEN Skip ELSE Fail("C10.put_refused_on_open_queue")
       [] e.e = "fin" ->
            IF ~e.ok THEN Skip
            ELSE IF \E q \in Qs : \E i \in 1..Len(Dr(e, q)) : InSeq(rcv[q], Dr(e, q)[i]) THEN Fail("C10.duplicate")
            ELSE IF \E q \in Qs : rcv[q] \o Dr(e, q) # acc[q] THEN Fail("C10.lost")
            ELSE IF \E q \in Qs : wait[q] # <<>> /\ Dr(e, q) # <<>> THEN Fail("C10.receiver_starved")
            ELSE Skip
       [] OTHER -> Skip
Spec == Init /\ [][Step]_vars
Report == (bad # "") => PrintT(<<"V", tid, bad, l - 1>>)
=============================================================================
