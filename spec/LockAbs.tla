------------------------------ MODULE LockAbs ------------------------------
(* Abstract specification of usim.Lock (C09): what a lock IS, independent   *)
(* of the event loop.  One owner (0 = free), a re-entrancy depth, a FIFO    *)
(* queue of contenders.  Giving the lock up hands it to the oldest          *)
(* contender at once (it is the DESIGNATED owner, depth 0, until it runs);  *)
(* a contender or designated owner that leaves by an exception withdraws /  *)
(* passes the lock on.                                                      *)
(*                                                                          *)
(* Used in two ways:                                                        *)
(*  - TLC checks that the operational specification USim REFINES this       *)
(*    module for every lock and queue read mutex (USimRef.tla), i.e. every  *)
(*    step of the detailed model is one of the steps below or leaves the    *)
(*    lock unchanged;                                                       *)
(*  - Apalache proves IndInv inductive (MC_LockAbs.tla), which gives the    *)
(*    invariants for runs of any length, not only up to TLC's bounds.       *)
(***************************************************************************)
EXTENDS Naturals, Sequences

CONSTANT
  \* @type: Set(Int);
  Procs        \* activities (positive integers; 0 stands for "nobody")

VARIABLES
  \* @type: Int;
  owner,
  \* @type: Int;
  depth,
  \* @type: Seq(Int);
  queue

lvars == <<owner, depth, queue>>

InQueue(p) == \E i \in DOMAIN queue : queue[i] = p
RemoveFrom(q, p) == SelectSeq(q, LAMBDA x : x # p)

Init == owner = 0 /\ depth = 0 /\ queue = <<>>

\* the lock is free: the asker owns it at once
Acquire(p) == /\ owner = 0
              /\ owner' = p /\ depth' = 1 /\ UNCHANGED queue
\* the owner enters again
Reenter(p) == /\ owner = p /\ depth >= 1
              /\ depth' = depth + 1 /\ UNCHANGED <<owner, queue>>
\* somebody else holds it: queue up
Wait(p) == /\ owner # 0 /\ owner # p /\ ~InQueue(p)
           /\ queue' = Append(queue, p) /\ UNCHANGED <<owner, depth>>
\* an inner block of the owner ends
Exit(p) == /\ owner = p /\ depth > 1
           /\ depth' = depth - 1 /\ UNCHANGED <<owner, queue>>
\* ownership ends: the oldest contender becomes the designated owner, else the lock is free
PassOn == IF queue = <<>> THEN owner' = 0 /\ queue' = queue
          ELSE owner' = Head(queue) /\ queue' = Tail(queue)
\* the outermost block of the owner ends (normally or by an exception / close passing through it)
Release(p) == /\ owner = p /\ depth = 1
              /\ depth' = 0 /\ PassOn
\* the designated owner gets its turn and enters the block
Take(p) == /\ owner = p /\ depth = 0
           /\ depth' = 1 /\ UNCHANGED <<owner, queue>>
\* the designated owner is cancelled / interrupted / closed before its turn: it passes the lock on
Abandon(p) == /\ owner = p /\ depth = 0
              /\ depth' = 0 /\ PassOn
\* a contender is cancelled / interrupted / closed while queueing
Withdraw(p) == /\ InQueue(p)
               /\ queue' = RemoveFrom(queue, p) /\ UNCHANGED <<owner, depth>>

Next == \E p \in Procs : \/ Acquire(p) \/ Reenter(p) \/ Wait(p) \/ Exit(p) \/ Release(p)
                         \/ Take(p) \/ Abandon(p) \/ Withdraw(p)
Spec == Init /\ [][Next]_lvars

----------------------------------------------------------------------------
\* properties of the abstract lock (C09)
NoDup == \A i, j \in DOMAIN queue : queue[i] = queue[j] => i = j
TypeOK == /\ owner \in Procs \cup {0} /\ depth \in Nat
          /\ \A i \in DOMAIN queue : queue[i] \in Procs
\* free iff nobody holds or waits; a free lock has no depth
FreeWhenUnused == owner = 0 => (depth = 0 /\ queue = <<>>)
OwnerNotQueued == ~InQueue(owner)
IndInv == TypeOK /\ FreeWhenUnused /\ OwnerNotQueued /\ NoDup /\ Len(queue) <= 8
\* hand-off is FIFO: whenever ownership moves to a contender, it is the head of the queue; nobody overtakes
FifoHandOff == [][(owner' # owner /\ owner' # 0 /\ queue # <<>>) => (owner' = Head(queue) /\ queue' = Tail(queue))]_lvars
\* contenders never change their relative order
OrderKept == [][\A i, j \in DOMAIN queue : i < j =>
                   LET a == queue[i]  b == queue[j] IN
                   ((\E i2 \in DOMAIN queue' : queue'[i2] = a) /\ (\E j2 \in DOMAIN queue' : queue'[j2] = b)) =>
                       \E i2, j2 \in DOMAIN queue' : i2 < j2 /\ queue'[i2] = a /\ queue'[j2] = b]_lvars
=============================================================================
