------------------------------- MODULE ObsC13 -------------------------------
(* C13 - Pipe shares throughput proportionally; transfers end at the        *)
(*       fluid-model time.  The trace starts with the scenario (`sc`); the  *)
(*       monitor evaluates the fluid semantics PipeSem for it and compares  *)
(*       every observed start / completion / abort date (exact rationals;   *)
(*       the harness snaps float dates within the property's tolerance).    *)
EXTENDS PipeSem, Json, IOUtils
Batch == JsonDeserialize(IOEnv.TRACE_FILE)
Traces == Batch.traces
N == Len(Traces)
F(e, f, d) == IF f \in DOMAIN e THEN e[f] ELSE d
VARIABLES tid, l, exp, seen, bad
vars == <<tid, l, exp, seen, bad>>
Init == /\ tid \in 1..N /\ l = 1 /\ bad = "" /\ seen = {}
        /\ exp = [on |-> FALSE, st |-> <<>>, end |-> <<>>, xs |-> <<>>, mode |-> "cancel"]
Fail(c) == bad' = c /\ UNCHANGED <<exp, seen>>
Step ==
  /\ l <= Len(Traces[tid]) /\ bad = ""
  /\ l' = l + 1 /\ UNCHANGED tid
  /\ LET e == Traces[tid][l] IN
     CASE e.e = "sc" ->
            LET o == Outcome(e.P, e.xs) IN
            exp' = [on |-> TRUE, st |-> o.st, end |-> o.end, xs |-> e.xs, mode |-> F(e, "mode", "cancel")]
            /\ UNCHANGED <<seen, bad>>
       [] e.e = "xbad" -> Fail("C13.not_representable")
       [] e.e = "xb" ->
            IF e.t # R(exp.xs[e.i].s) THEN Fail("C13.start_time") ELSE UNCHANGED <<exp, seen, bad>>
       [] e.e = "xr" ->
            IF exp.st[e.i] # "done" THEN Fail("C13.completed_although_cancelled_first")
            ELSE IF e.t # exp.end[e.i] THEN
                 (IF Less(e.t, exp.end[e.i]) THEN Fail("C13.completion_too_early") ELSE Fail("C13.completion_too_late"))
            ELSE seen' = seen \cup {e.i} /\ UNCHANGED <<exp, bad>>
       [] e.e = "xu" ->
            \* (forced close by an until block whose date ties with the completion: the block's trigger was queued
            \* first, so the transfer is closed at the very date at which it would have completed)
            IF exp.mode = "close" /\ exp.st[e.i] = "done" /\ e.t = exp.end[e.i]
                  /\ e.t = R(exp.xs[e.i].s + exp.xs[e.i].c)
            THEN seen' = seen \cup {e.i} /\ UNCHANGED <<exp, bad>>
            ELSE IF exp.st[e.i] # "cancelled" \/ e.t # exp.end[e.i] THEN Fail("C13.abort_time")
            ELSE seen' = seen \cup {e.i} /\ UNCHANGED <<exp, bad>>
       [] e.e = "fin" ->
            IF e.out.k # "ok" THEN Fail("C13.run_failed")
            ELSE IF exp.on /\ seen # {i \in 1..Len(exp.xs) : exp.st[i] = "done" \/ (exp.st[i] = "cancelled" /\ Less(R(exp.xs[i].s), exp.end[i]) )}
                 THEN Fail("C13.transfer_never_ended")
            ELSE UNCHANGED <<exp, seen, bad>>
       [] OTHER -> UNCHANGED <<exp, seen, bad>>
Spec == Init /\ [][Step]_vars
Report == (bad # "") => PrintT(<<"V", tid, bad, l - 1>>)
=============================================================================
