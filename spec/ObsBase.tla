------------------------------ MODULE ObsBase ------------------------------
(* Shared part of the property monitors: a batch of event traces RECORDED   *)
(* FROM THE REAL CODE is read from $TRACE_FILE; TLC picks a trace (`tid`)   *)
(* in the initial state and feeds it event by event to the monitor.         *)
EXTENDS Naturals, Sequences, FiniteSets, TLC, Json, IOUtils

Batch == JsonDeserialize(IOEnv.TRACE_FILE)
Traces == Batch.traces
N == Len(Traces)

F(e, f, d) == IF f \in DOMAIN e THEN e[f] ELSE d     \* optional field
InSeq(s, x) == \E i \in 1..Len(s) : s[i] = x
DropLast(s, x) ==
  LET idx == CHOOSE i \in 1..Len(s) : s[i] = x /\ \A j \in (i + 1)..Len(s) : s[j] # x
  IN SubSeq(s, 1, idx - 1) \o SubSeq(s, idx + 1, Len(s))
DropFirst(s, x) ==
  LET idx == CHOOSE i \in 1..Len(s) : s[i] = x /\ \A j \in 1..(i - 1) : s[j] # x
  IN SubSeq(s, 1, idx - 1) \o SubSeq(s, idx + 1, Len(s))
Without(s, x) == SelectSeq(s, LAMBDA y : y # x)
\* resource levels and amounts are vectors <<a, b>> over the resource types of a supply
Zero == <<0, 0>>
VAdd(x, y) == <<x[1] + y[1], x[2] + y[2]>>
VSub(x, y) == <<x[1] - y[1], x[2] - y[2]>>
=============================================================================
