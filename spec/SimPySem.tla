------------------------------ MODULE SimPySem ------------------------------
(* Sequential semantics of the usim.py (SimPy) resources (C19).             *)
(* A history is a sequence of operations, one per time step; after every    *)
(* operation the resource SETTLES: every request that has become grantable  *)
(* under the policy of its kind is granted within that time step.           *)
(*   kinds: "Container" "Store" "PriorityStore" "FilterStore"               *)
(*          "Resource" "PriorityResource" "PreemptiveResource"              *)
(* An operation is a record [op, a, p, pre] :                               *)
(*   op = "put" (a = amount / item filter colour is derived from the id)    *)
(*        "get" (a = amount, or filter: 0 any, 1 odd, 2 even, 3 none)       *)
(*        "request" (p = priority, pre = preempt)  "release"  "cancel"      *)
(* Request i is the i-th operation.  release/cancel address a request `a`.  *)
EXTENDS Naturals, Sequences, FiniteSets, SequencesExt

IsRes(k) == k \in {"Resource", "PriorityResource", "PreemptiveResource"}
Key(r) == <<r.p, r.t, IF r.pre THEN 0 ELSE 1, r.id>>
KeyLess(x, y) == \/ x[1] < y[1]
                 \/ (x[1] = y[1] /\ x[2] < y[2])
                 \/ (x[1] = y[1] /\ x[2] = y[2] /\ x[3] < y[3])
                 \/ (x[1] = y[1] /\ x[2] = y[2] /\ x[3] = y[3] /\ x[4] < y[4])
\* PriorityRequest.key = (priority, time, not preempt): strictly better?
Better(r, u) == \/ r.p < u.p \/ (r.p = u.p /\ r.t < u.t)
                \/ (r.p = u.p /\ r.t = u.t /\ (IF r.pre THEN 0 ELSE 1) < (IF u.pre THEN 0 ELSE 1))
InsertSorted(q, r) == SortSeq(Append(q, r), LAMBDA x, y : KeyLess(Key(x), Key(y)))
FMatch(f, item) == CASE f = 0 -> TRUE [] f = 1 -> item % 2 = 1 [] f = 2 -> item % 2 = 0 [] OTHER -> FALSE
FirstMatch(items, f) == CHOOSE i \in 1..Len(items) : FMatch(f, items[i].id) /\ \A j \in 1..(i - 1) : ~FMatch(f, items[j].id)
HasMatch(items, f) == \E i \in 1..Len(items) : FMatch(f, items[i].id)
DelAt(s, i) == SubSeq(s, 1, i - 1) \o SubSeq(s, i + 1, Len(s))
Worst(us) == CHOOSE i \in 1..Len(us) : \A j \in 1..Len(us) : j = i \/ KeyLess(Key(us[j]), Key(us[i]))

New(kind, cap, init) ==
  [kind |-> kind, cap |-> cap, level |-> init, items |-> <<>>, users |-> <<>>, putq |-> <<>>, getq |-> <<>>,
   granted |-> {}, got |-> <<>>, evicted |-> <<>>]

\* grant the head put / request if possible
CanPut(st) ==
  st.putq # <<>> /\
  LET r == Head(st.putq) IN
  CASE st.kind = "Container" -> st.cap - st.level >= r.a
    [] st.kind \in {"Store", "PriorityStore", "FilterStore"} -> Len(st.items) < st.cap
    [] st.kind = "PreemptiveResource" ->
         Len(st.users) < st.cap \/ (r.pre /\ st.users # <<>> /\ Better(r, st.users[Worst(st.users)]))
    [] OTHER -> Len(st.users) < st.cap
DoPut(st) ==
  LET r == Head(st.putq) base == [st EXCEPT !.putq = Tail(@), !.granted = @ \cup {r.id}] IN
  CASE st.kind = "Container" -> [base EXCEPT !.level = @ + r.a]
    [] st.kind \in {"Store", "FilterStore"} -> [base EXCEPT !.items = Append(@, [id |-> r.id, p |-> r.p])]
    [] st.kind = "PriorityStore" ->
         [base EXCEPT !.items = SortSeq(Append(@, [id |-> r.id, p |-> r.p]),
                                        LAMBDA x, y : x.p < y.p \/ (x.p = y.p /\ x.id < y.id))]
    [] st.kind = "PreemptiveResource" /\ Len(st.users) >= st.cap ->
         \* evict the worst user, interrupt its process with Preempted(by, usage_since)
         LET w == Worst(st.users) v == st.users[w] IN
         [base EXCEPT !.users = Append(DelAt(@, w), [r EXCEPT !.since = r.now]),
                      !.evicted = Append(@, [victim |-> v.id, by |-> r.id, since |-> v.since])]
    [] OTHER -> [base EXCEPT !.users = Append(@, [r EXCEPT !.since = r.now])]

\* index of the get / release to grant next (0 = none)
NextGet(st) ==
  IF st.getq = <<>> THEN 0
  ELSE CASE st.kind = "Container" -> IF st.level >= Head(st.getq).a THEN 1 ELSE 0
         [] st.kind \in {"Store", "PriorityStore"} -> IF st.items # <<>> THEN 1 ELSE 0
         [] st.kind = "FilterStore" ->
              \* requests whose filter matches nothing do not block later ones
              IF \E i \in 1..Len(st.getq) : HasMatch(st.items, st.getq[i].a)
              THEN CHOOSE i \in 1..Len(st.getq) : HasMatch(st.items, st.getq[i].a)
                                                    /\ \A j \in 1..(i - 1) : ~HasMatch(st.items, st.getq[j].a)
              ELSE 0
         [] OTHER -> 1           \* a release always succeeds
DoGet(st, i) ==
  LET r == st.getq[i] base == [st EXCEPT !.getq = DelAt(@, i), !.granted = @ \cup {r.id}] IN
  CASE st.kind = "Container" -> [base EXCEPT !.level = @ - r.a]
    [] st.kind \in {"Store", "PriorityStore"} ->
         [base EXCEPT !.items = Tail(@), !.got = Append(@, [req |-> r.id, item |-> Head(st.items).id])]
    [] st.kind = "FilterStore" ->
         LET k == FirstMatch(st.items, r.a) IN
         [base EXCEPT !.items = DelAt(@, k), !.got = Append(@, [req |-> r.id, item |-> st.items[k].id])]
    [] OTHER -> [base EXCEPT !.users = SelectSeq(@, LAMBDA u : u.id # r.a)]

\* BaseResource._trigger_put / _trigger_get: a new Put (Get) examines the put (get) queue; every request that is
\* granted examines the other queue in turn (its callback), until a pass grants nothing.
RECURSIVE PutPass(_, _, _), GetPass(_, _), Cascade(_, _, _)
PutPass(st, now, any) ==
  IF CanPut(st) THEN PutPass(DoPut([st EXCEPT !.putq = <<[Head(@) EXCEPT !.now = now]>> \o Tail(@)]), now, TRUE)
  ELSE <<st, any>>
GetPass(st, any) == IF NextGet(st) # 0 THEN GetPass(DoGet(st, NextGet(st)), TRUE) ELSE <<st, any>>
Cascade(st, now, phase) ==
  LET r == IF phase = "put" THEN PutPass(st, now, FALSE) ELSE GetPass(st, FALSE) IN
  IF r[2] THEN Cascade(r[1], now, IF phase = "put" THEN "get" ELSE "put") ELSE r[1]
Settle(st, now) == Cascade(Cascade(st, now, "put"), now, "get")      \* full fixpoint (used by the laws only)

\* "use":  `with resource.request() as req: yield req`  - the block is left as soon as the request is granted,
\* which releases it within the same time step (and lets the next request in)
RECURSIVE LeaveUsers(_, _)
LeaveUsers(st, now) ==
  IF \E j \in 1..Len(st.users) : st.users[j].use
  THEN LET j == CHOOSE j \in 1..Len(st.users) : st.users[j].use IN
       LeaveUsers(Cascade([st EXCEPT !.users = DelAt(@, j)], now, "put"), now)
  ELSE st

\* the i-th operation `o` of the history, issued at time i - 1
\* `valid`: a release / cancel addresses a request that exists (an earlier request / put / get)
Apply(st, o, i, valid, tm) ==
  LET r == [id |-> i, a |-> o.a, p |-> o.p, pre |-> o.pre, t |-> tm, since |-> 0, now |-> tm, use |-> o.op = "use"]
      st1 ==
        CASE o.op \in {"put", "request", "use"} ->
               [st EXCEPT !.putq = IF st.kind \in {"PriorityResource", "PreemptiveResource"} THEN InsertSorted(@, r)
                                   ELSE Append(@, r)]
          [] o.op = "get" \/ (o.op = "release" /\ valid) -> [st EXCEPT !.getq = Append(@, r)]
          [] o.op = "cancel" /\ valid ->
               \* cancelling a request that was not granted withdraws it; otherwise nothing happens
               [st EXCEPT !.putq = SelectSeq(@, LAMBDA q : q.id # o.a), !.getq = SelectSeq(@, LAMBDA q : q.id # o.a)]
          [] OTHER -> st IN
  IF o.op \in {"put", "request", "use"} THEN LeaveUsers(Cascade(st1, tm, "put"), tm)
  ELSE IF o.op = "get" \/ (o.op = "release" /\ valid) THEN LeaveUsers(Cascade(st1, tm, "get"), tm)
  ELSE st1       \* a cancel examines no queue

RECURSIVE Run(_, _, _)
Valid(hist, i) == LET o == hist[i] IN
  o.op \in {"release", "cancel"} => (o.a < i /\ hist[o.a].op \in (IF o.op = "release" THEN {"request", "use"} ELSE {"put", "get", "request", "use"}))
\* `pair` = k > 0: operation k+1 is issued in the same time step as operation k (otherwise one operation per step)
TimeOf(i, pair) == IF pair > 0 /\ i > pair THEN i - 2 ELSE i - 1
RECURSIVE RunP(_, _, _, _)
RunP(st, hist, i, pair) == IF i > Len(hist) THEN st
                           ELSE RunP(Apply(st, hist[i], i, Valid(hist, i), TimeOf(i, pair)), hist, i + 1, pair)
Run(st, hist, i) == RunP(st, hist, i, 0)
\* observable projection after the whole history
Project(st) == [level |-> st.level, items |-> [i \in 1..Len(st.items) |-> st.items[i].id],
                users |-> {st.users[i].id : i \in 1..Len(st.users)}, granted |-> st.granted,
                got |-> st.got, evicted |-> st.evicted,
                nput |-> Len(st.putq), nget |-> Len(st.getq)]
=============================================================================
