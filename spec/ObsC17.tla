------------------------------- MODULE ObsC17 -------------------------------
(* C17 - Concurrent[...] handlers select exactly the documented sets of     *)
(*       failures.  Each event reports what the real classes answered for   *)
(*       one (failure, handler) pair; the monitor recomputes the rule.      *)
EXTENDS ConcSem, TLC, Json, IOUtils
Batch == JsonDeserialize(IOEnv.TRACE_FILE)
Traces == Batch.traces
N == Len(Traces)
VARIABLES tid, l, bad
vars == <<tid, l, bad>>
F(e, f, d) == IF f \in DOMAIN e THEN e[f] ELSE d     \* optional field
Init == tid \in 1..N /\ l = 1 /\ bad = ""
\* JSON lists -> the set-based items of ConcSem (one level of nesting in handler items)
Conv(h) == IF h[1] = "P" THEN h ELSE <<"C", {h[2][i] : i \in 1..Len(h[2])}, h[3]>>
Items(s) == {Conv(s[i]) : i \in 1..Len(s)}
Step ==
  /\ l <= Len(Traces[tid]) /\ bad = ""
  /\ l' = l + 1 /\ UNCHANGED tid
  /\ LET e == Traces[tid][l] IN
     CASE e.e = "m" ->
            LET want == IF e.bare THEN TRUE ELSE Matches(KidSet(e.kids), Items(e.items), e.incl) IN
            \* (a handler built from Exception subclasses and specialisations of Concurrent is a legal handler)
            bad' = IF F(e, "rejected", FALSE) THEN "C17.handler_rejected"
                   ELSE IF e.isinst # want THEN "C17.isinstance"
                   ELSE IF e.issub # want THEN "C17.issubclass"
                   ELSE IF ~e.ident THEN "C17.identity"
                   ELSE IF e.flat # Leaves(e.kids) THEN "C17.flattened"
                   ELSE IF e.exc # want THEN "C17.except_clause"
                   ELSE ""
       [] e.e = "f" -> bad' = IF e.flat # Leaves(e.kids) \/ ~e.flatmatch THEN "C17.flattened" ELSE ""
       [] e.e = "id" -> bad' = IF ~e.same THEN "C17.identity" ELSE ""
       [] OTHER -> bad' = ""
Spec == Init /\ [][Step]_vars
Report == (bad # "") => PrintT(<<"V", tid, bad, l - 1>>)
=============================================================================
