------------------------------ MODULE SimPyOp ------------------------------
(* Operational specification of the usim.py (SimPy) event / process layer   *)
(* (C18) at the level the property speaks about: virtual time, events that  *)
(* fire once, processes that wait for events and are resumed with their     *)
(* value at the time of the trigger, interrupts, callbacks, run(until).      *)
(* Which of several things that are due in one time step happens first is   *)
(* left open (the property does not say): a recorded execution is correct   *)
(* iff it is ONE of the behaviours of this specification (SimPyOpT.tla).     *)
(*                                                                          *)
(* The whole state is one record `S`; every action is a guard and a state   *)
(* function, so that the model checker (Next) and the trace specification   *)
(* use the very same definitions.                                           *)
(*                                                                          *)
(* Scripts (see SimPyEv.tla): a process is a list of steps                  *)
(*   <<"to",d,v>> <<"wait",e>> <<"succ",e,v>> <<"fail",e>> <<"all",d1,d2>>  *)
(*   <<"any",d,e>> <<"nest",a,b,c>> <<"nest2",a,b,c>> <<"proc",k>>          *)
(*   <<"intr",k,c>> <<"native",d>>                                          *)
(***************************************************************************)
EXTENDS Naturals, Sequences, FiniteSets, TLC

Evs == 1..2
Max2(x, y) == IF x > y THEN x ELSE y
Min2(x, y) == IF x < y THEN x ELSE y
IsWaitKind(k) == k \in {"to", "wait", "all", "any", "nest", "nest2", "proc", "native", "dall", "dwait"}

NoEv == [trig |-> FALSE, t |-> 0, ok |-> TRUE, v |-> 0, cb |-> 0, seen |-> FALSE]
NewProc == [st |-> "new", pc |-> 1, k |-> <<"none">>, t0 |-> 0, intq |-> <<>>, dt |-> 0, must |-> FALSE]
\* until: 0 = run to quiescence, 1..9 = until that time, 10 + e = until event e
\* defuse: a callback of event 1 handles its failure (the SimPy supervision idiom)
InitStateD(procs, until, defuse) ==
  [now |-> 0, script |-> procs, until |-> until, defuse |-> defuse, ev |-> [e \in Evs |-> NoEv],
   proc |-> [p \in 1..Len(procs) |-> NewProc], running |-> 0, over |-> FALSE, out |-> "none",
   \* conditions `timeout(d) | event e` that were abandoned by an interrupted process (they stay alive and fail, as
   \* events nobody waits for, if e fails before they are decided); doom: "no" | "may" | "must" - such a failure happened
   orph |-> {}, doom |-> "no"]
InitState(procs, until) == InitStateD(procs, until, FALSE)

NProcs(S) == Len(S.script)
StepOf(S, p) == S.script[p][S.proc[p].pc]
AtEnd(S, p) == S.proc[p].pc > Len(S.script[p])

\* when (and how) the wait of process p ends, as far as that is determined by now
\*   [known, t, ok, amb]     amb: a tie inside one time step decides
Exp(S, p) ==
  LET k == S.proc[p].k  t0 == S.proc[p].t0 IN
  CASE k[1] = "to"     -> [known |-> TRUE, t |-> t0 + k[2], ok |-> TRUE, amb |-> FALSE]
    [] k[1] = "native" -> [known |-> TRUE, t |-> t0 + k[2], ok |-> TRUE, amb |-> FALSE]
    [] k[1] = "wait"   -> [known |-> S.ev[k[2]].trig, t |-> Max2(t0, S.ev[k[2]].t), ok |-> S.ev[k[2]].ok, amb |-> FALSE]
    [] k[1] = "proc"   -> [known |-> S.proc[k[2]].st = "done", t |-> Max2(t0, S.proc[k[2]].dt), ok |-> TRUE, amb |-> FALSE]
    [] k[1] = "all"    -> [known |-> TRUE, t |-> t0 + Max2(k[2], k[3]), ok |-> TRUE, amb |-> FALSE]
    \* the same event listed twice: all_of([t1, t2, t1]) / e & e
    [] k[1] = "dall"   -> [known |-> TRUE, t |-> t0 + Max2(k[2], k[3]), ok |-> TRUE, amb |-> FALSE]
    [] k[1] = "dwait"  -> [known |-> S.ev[k[2]].trig, t |-> Max2(t0, S.ev[k[2]].t), ok |-> S.ev[k[2]].ok, amb |-> FALSE]
    [] k[1] = "nest"   -> [known |-> TRUE, t |-> t0 + Max2(Min2(k[2], k[3]), k[4]), ok |-> TRUE, amb |-> FALSE]
    [] k[1] = "nest2"  -> [known |-> TRUE, t |-> t0 + Min2(Max2(k[2], k[3]), k[4]), ok |-> TRUE, amb |-> FALSE]
    [] k[1] = "any"    ->
         LET e == S.ev[k[3]]  te == Max2(t0, e.t)  tt == t0 + k[2] IN
         IF e.trig /\ te = tt THEN [known |-> TRUE, t |-> te, ok |-> e.ok, amb |-> TRUE]
         ELSE IF e.trig /\ te < tt THEN [known |-> TRUE, t |-> te, ok |-> e.ok, amb |-> FALSE]
         ELSE [known |-> TRUE, t |-> tt, ok |-> TRUE, amb |-> FALSE]
    [] OTHER -> [known |-> FALSE, t |-> 0, ok |-> TRUE, amb |-> FALSE]
\* the event (if any) whose failure a resumption of p hands to the process
EvOf(S, p) == LET k == S.proc[p].k IN IF k[1] \in {"wait", "dwait"} THEN k[2] ELSE IF k[1] = "any" THEN k[3] ELSE 0

----------------------------------------------------------------------------
\* ACTIONS: guard G_x(S, args) and effect F_x(S, args)

\* a process gets its first turn (at the initial time)
G_Start(S, p) == ~S.over /\ S.running = 0 /\ S.proc[p].st = "new" /\ S.now = 0
F_Start(S, p) == [S EXCEPT !.proc[p].st = "run", !.running = p]

\* synchronous steps of the running process
G_Act(S, p) == ~S.over /\ S.running = p /\ ~AtEnd(S, p) /\ StepOf(S, p)[1] \in {"succ", "fail", "intr"}
ActRefused(S, p) == LET s == StepOf(S, p) IN s[1] \in {"succ", "fail"} /\ S.ev[s[2]].trig    \* second trigger: an error
F_Act(S, p) ==
  LET s == StepOf(S, p)  S1 == [S EXCEPT !.proc[p].pc = @ + 1] IN
  IF s[1] \in {"succ", "fail"}
  THEN IF S.ev[s[2]].trig THEN S1
       ELSE LET hit == {o \in S.orph : o.e = s[2] /\ S.now <= o.tt}
                must == s[1] = "fail" /\ \E o \in hit : S.now < o.tt
                may == s[1] = "fail" /\ hit # {} IN
            [S1 EXCEPT !.ev[s[2]] = [trig |-> TRUE, t |-> S.now, ok |-> s[1] = "succ", v |-> IF s[1] = "succ" THEN s[3] ELSE 0,
                                     cb |-> 0, seen |-> FALSE],
                       !.orph = @ \ hit,
                       !.doom = IF must THEN "must" ELSE IF may /\ @ = "no" THEN "may" ELSE @]
  ELSE \* interrupt(cause): ignored for a finished process
       IF S.proc[s[2]].st = "done" THEN S1
       ELSE [S1 EXCEPT !.proc[s[2]].intq = Append(@, [c |-> s[3], t |-> S.now])]

G_Yield(S, p) == ~S.over /\ S.running = p /\ ~AtEnd(S, p) /\ IsWaitKind(StepOf(S, p)[1])
\* (must: an interrupt is already pending when the process yields - it is raised at this very yield)
F_Yield(S, p) == [S EXCEPT !.proc[p].st = "wait", !.proc[p].k = StepOf(S, p), !.proc[p].t0 = S.now, !.running = 0,
                           !.proc[p].must = S.proc[p].intq # <<>>]

G_End(S, p) == ~S.over /\ S.running = p /\ AtEnd(S, p)
F_End(S, p) == [S EXCEPT !.proc[p].st = "done", !.proc[p].dt = S.now, !.running = 0]

\* a waiting process is resumed: with a pending interrupt (first in call order) if there is one, else by its target
\* (an interrupt issued in the very time step in which the target fires ties with it: either may win - the property
\* fixes the time step, not the order inside it; an interrupt that was pending at the yield, or issued at an earlier
\* time, always wins)
CanInterrupt(S, p) == S.proc[p].st = "wait" /\ S.proc[p].intq # <<>>
CanComplete(S, p) == /\ S.proc[p].st = "wait" /\ Exp(S, p).known /\ Exp(S, p).t = S.now
                     /\ (IF S.proc[p].intq = <<>> THEN TRUE ELSE (Head(S.proc[p].intq).t = S.now /\ ~S.proc[p].must))
G_ResumeI(S, p) == ~S.over /\ S.running = 0 /\ CanInterrupt(S, p)
G_ResumeC(S, p) == ~S.over /\ S.running = 0 /\ CanComplete(S, p)
Resumed(S, p) == [S EXCEPT !.proc[p].st = "run", !.proc[p].pc = @ + 1, !.running = p]
F_ResumeI(S, p) == LET k == S.proc[p].k
                       \* the wait was for a condition over a shared event (timeout(d) | e, or e & e): it is abandoned
                       cond == k[1] \in {"any", "dwait"}
                       en == IF k[1] = "any" THEN k[3] ELSE IF k[1] = "dwait" THEN k[2] ELSE 1
                       tt == IF k[1] = "any" THEN S.proc[p].t0 + k[2] ELSE 99
                       e == S.ev[en]
                       \* the abandoned condition has already met the failure of its event (before / as its timeout fired)
                       te == Max2(S.proc[p].t0, e.t)
                       failed == cond /\ e.trig /\ ~e.ok /\ te <= tt IN
   [Resumed(S, p) EXCEPT !.proc[p].intq = Tail(@),
                         !.orph = IF cond /\ ~e.trig /\ S.now <= tt THEN @ \cup {[e |-> en, tt |-> tt]} ELSE @,
                         !.doom = IF failed /\ te < tt THEN "must" ELSE IF failed /\ @ = "no" THEN "may" ELSE @]
F_ResumeC(S, p) == IF ~Exp(S, p).ok /\ EvOf(S, p) # 0 THEN [Resumed(S, p) EXCEPT !.ev[EvOf(S, p)].seen = TRUE]     \* the failure is handled (defused)
                   ELSE Resumed(S, p)

\* the callbacks of an event run once, in the time step of its trigger; an unhandled failure ends the run
G_Callback(S, e) == ~S.over /\ S.running = 0 /\ S.ev[e].trig /\ S.ev[e].cb = 0 /\ S.ev[e].t = S.now
Watched(S, e) == \E p \in 1..NProcs(S) : S.proc[p].st = "wait" /\ EvOf(S, p) = e
\* outcomes: "ok" (callbacks ran), "fail" (the failure is nobody's: run() raises it)
CallbackMay(S, e, o) ==
  IF S.ev[e].ok \/ S.ev[e].seen \/ (S.defuse /\ e = 1) THEN o = "ok"
  ELSE IF Watched(S, e) THEN o \in {"ok", "fail"}         \* a waiter is about to handle it: order inside the step decides
  ELSE o = "fail"
\* (a failure that is nobody's dooms the run: it ends within this time step with that exception; what else is due
\* in the step may still happen while the environment is torn down)
F_Callback(S, e, o) == IF o = "ok" THEN [S EXCEPT !.ev[e].cb = 1]
                       ELSE [S EXCEPT !.ev[e].cb = 1, !.out = "exc"]

\* nothing is left to do at `now`
Busy(S) == \/ S.running # 0
           \/ \E p \in 1..NProcs(S) : S.proc[p].st = "new" \/ CanInterrupt(S, p) \/ CanComplete(S, p)
           \/ \E e \in Evs : S.ev[e].trig /\ S.ev[e].cb = 0 /\ S.ev[e].t = S.now
Dates(S) == {Exp(S, p).t : p \in {q \in 1..NProcs(S) : S.proc[q].st = "wait" /\ Exp(S, q).known /\ Exp(S, q).t > S.now}}
            \cup (IF S.until \in 1..9 /\ S.until > S.now THEN {S.until} ELSE {})
\* the clock moves to the next date at which something is due - only when everything due now has happened
MustStop(S) == \/ (S.until \in 1..9 /\ S.now >= S.until) \/ (S.until > 10 /\ S.ev[S.until - 10].trig) \/ S.out = "exc"
               \/ (S.doom = "must" /\ S.until = 0)
G_Advance(S, t) == ~S.over /\ ~Busy(S) /\ ~MustStop(S) /\ t \in Dates(S) /\ \A u \in Dates(S) : t <= u
F_Advance(S, t) == [S EXCEPT !.now = t]

\* the failure of an abandoned condition is nobody's: it dooms the run like any unhandled failed event
G_Doom(S) == ~S.over /\ S.running = 0 /\ S.doom \in {"may", "must"} /\ S.out # "exc"
F_Doom(S) == [S EXCEPT !.out = "exc", !.doom = "no"]

\* how a run ends
UntilEv(S) == S.until - 10
G_Stop(S) == /\ ~S.over /\ S.running = 0
             /\ ~(S.doom = "must" /\ S.until = 0 /\ S.out # "exc")
             /\ \/ S.out = "exc"                                                    \* an unhandled failure
                \/ S.until \in 1..9 /\ S.now = S.until                              \* until a time: exactly then
                \/ S.until > 10 /\ S.ev[UntilEv(S)].trig /\ S.ev[UntilEv(S)].t = S.now   \* until an event: when it fires
                \/ ~Busy(S) /\ Dates(S) = {}                                        \* nothing can happen any more
OutOfStop(S) == IF S.out = "exc" THEN "exc"
                ELSE IF S.until > 10 /\ ~S.ev[UntilEv(S)].trig THEN "never"      \* RuntimeError: the event never fired
                ELSE "ok"
F_Stop(S) == [S EXCEPT !.over = TRUE, !.out = OutOfStop(S)]

----------------------------------------------------------------------------
\* the specification for the model checker: a most general script
CONSTANTS NP, NS
VARIABLE S
StepSet(i) == {<<"to", d, d + 5>> : d \in 0..2} \cup {<<"wait", e>> : e \in Evs}
              \cup {<<"succ", e, 7>> : e \in Evs} \cup {<<"fail", 1>>}
              \cup {<<"all", 1, 2>>, <<"any", 2, 1>>, <<"any", 1, 2>>, <<"native", 1>>, <<"dall", 1, 2>>, <<"dwait", 1>>}
              \cup {<<"proc", k>> : k \in (1..NP) \ {i}} \cup {<<"intr", k, 40 + i>> : k \in (1..NP) \ {i}}
Init == \E until \in {0, 2, 11} : \E ps \in [1..NP -> UNION {[1..m -> UNION {StepSet(i) : i \in 1..NP}] : m \in 1..NS}] :
          /\ \A i \in 1..NP : \A j \in 1..Len(ps[i]) : (ps[i][j][1] \in {"proc", "intr"} => ps[i][j][2] # i)
          /\ \E df \in BOOLEAN : S = InitStateD(ps, until, df)
Next ==
  \/ \E p \in 1..NProcs(S) :
        \/ G_Start(S, p) /\ S' = F_Start(S, p)
        \/ G_Act(S, p) /\ S' = F_Act(S, p)
        \/ G_Yield(S, p) /\ S' = F_Yield(S, p)
        \/ G_End(S, p) /\ S' = F_End(S, p)
        \/ G_ResumeI(S, p) /\ S' = F_ResumeI(S, p)
        \/ G_ResumeC(S, p) /\ S' = F_ResumeC(S, p)
  \/ \E e \in Evs : \E o \in {"ok", "fail"} : G_Callback(S, e) /\ CallbackMay(S, e, o) /\ S' = F_Callback(S, e, o)
  \/ \E t \in 1..12 : G_Advance(S, t) /\ S' = F_Advance(S, t)
  \/ G_Doom(S) /\ S' = F_Doom(S)
  \/ G_Stop(S) /\ S' = F_Stop(S)
Spec == Init /\ [][Next]_S
FairSpec == Spec /\ WF_S(Next)

\* design-level properties of the layer (C18)
\* an event keeps the time, outcome and value of its first trigger
TriggerOnce == [][\A e \in Evs : S.ev[e].trig => (S'.ev[e].trig /\ S'.ev[e].t = S.ev[e].t /\ S'.ev[e].ok = S.ev[e].ok /\ S'.ev[e].v = S.ev[e].v)]_S
\* callbacks run at most once and only in the time step of the trigger
CallbackOnce == \A e \in Evs : S.ev[e].cb <= 1 /\ (S.ev[e].cb = 1 => S.ev[e].trig)
\* the clock never moves while a process can be resumed, has a pending interrupt, or callbacks are due
NothingLeftBehind == [][S'.now # S.now => ~Busy(S)]_S
ClockMonotone == [][S'.now >= S.now]_S
\* run(until=T) executes nothing after T
NotPastUntil == (S.until \in 1..9) => S.now <= S.until
\* a run that ends normally without `until` leaves no process waiting for something that has happened
QuiescentEnd == (S.over /\ S.out = "ok" /\ S.until = 0) =>
   \A p \in 1..NProcs(S) : S.proc[p].st = "wait" => ~(Exp(S, p).known /\ Exp(S, p).t <= S.now) /\ S.proc[p].intq = <<>>
\* every run ends
Termination == <>(S.over)
=============================================================================
