------------------------------- MODULE ObsC09 -------------------------------
(* C09 - Lock: mutual exclusion, re-entrancy, FIFO hand-off, always released *)
(* Monitor over the observable events of lock blocks:                       *)
(*   b(enter,l)  request      r(enter,l)  inside the block                  *)
(*   u(enter,l)  request aborted by an exception before the block was entered*)
(*   b(leave,lock,l) / u(body,lock,l)  one level of the block is left        *)
(*   p(avail,l,v) value of lock.available      fin  end of the run           *)
EXTENDS ObsBase
Locks == 1..2
VARIABLES tid, l, holder, depth, asked, bad
vars == <<tid, l, holder, depth, asked, bad>>

Init == /\ tid \in 1..N /\ l = 1
        /\ holder = [k \in Locks |-> 0] /\ depth = [k \in Locks |-> 0]
        /\ asked = [k \in Locks |-> <<>>] /\ bad = ""

Fail(c) == bad' = c /\ UNCHANGED <<holder, depth, asked>>
Skip == UNCHANGED <<holder, depth, asked, bad>>

Release(k, a) ==
  IF holder[k] # a THEN Fail("C09.release_by_non_holder")
  ELSE /\ depth' = [depth EXCEPT ![k] = @ - 1]
       /\ holder' = [holder EXCEPT ![k] = IF depth[k] = 1 THEN 0 ELSE @]
       /\ UNCHANGED <<asked, bad>>

Step ==
  /\ l <= Len(Traces[tid]) /\ bad = ""
  /\ l' = l + 1 /\ UNCHANGED tid
  /\ LET e == Traces[tid][l] a == F(e, "a", 0) op == F(e, "op", "") IN
     \* an internal error of the framework surfaces from entering / leaving the block
     CASE e.e \in {"x", "u"} /\ (op = "enter" \/ F(e, "blk", "") = "lock") /\ F(e, "exc", <<>>) # <<>> /\ e.exc[1] = "other" ->
            Fail("C09.lock_raised_internal")
       [] e.e = "b" /\ op = "enter" ->
            /\ asked' = [asked EXCEPT ![e.l] = Append(@, a)] /\ UNCHANGED <<holder, depth, bad>>
       [] e.e = "r" /\ op = "enter" ->
            LET k == e.l IN
            IF ~InSeq(asked[k], a) THEN Fail("C09.acquired_without_request")
            ELSE IF holder[k] = a
                 THEN /\ asked' = [asked EXCEPT ![k] = DropLast(@, a)]
                      /\ depth' = [depth EXCEPT ![k] = @ + 1] /\ UNCHANGED <<holder, bad>>
            ELSE IF holder[k] # 0 THEN Fail("C09.two_holders")
            ELSE IF Head(asked[k]) # a THEN Fail("C09.grant_order")
            ELSE /\ asked' = [asked EXCEPT ![k] = Tail(@)]
                 /\ holder' = [holder EXCEPT ![k] = a]
                 /\ depth' = [depth EXCEPT ![k] = 1] /\ UNCHANGED bad
       [] e.e \in {"u", "x"} /\ op = "enter" ->
            IF ~InSeq(asked[e.l], a) THEN Fail("C09.abort_without_request")
            ELSE asked' = [asked EXCEPT ![e.l] = DropLast(@, a)] /\ UNCHANGED <<holder, depth, bad>>
       [] e.e = "b" /\ op = "leave" /\ F(e, "blk", "") = "lock" -> Release(e.id, a)
       [] e.e = "u" /\ op = "body" /\ F(e, "blk", "") = "lock" -> Release(e.id, a)
       [] e.e = "p" /\ op = "avail" ->
            LET k == e.l IN
            IF holder[k] = a /\ ~e.v THEN Fail("C09.available_false_for_owner")
            ELSE IF holder[k] # 0 /\ holder[k] # a /\ e.v THEN Fail("C09.available_true_while_held")
            ELSE IF holder[k] = 0 /\ asked[k] = <<>> /\ ~e.v THEN Fail("C09.available_false_when_free")
            \* released to a waiting requester that has not resumed yet: the lock is handed over, not free
            ELSE IF holder[k] = 0 /\ asked[k] # <<>> /\ ~InSeq(asked[k], a) /\ e.v THEN Fail("C09.available_true_during_handoff")
            ELSE Skip
       [] e.e = "end" ->
            IF \E k \in Locks : holder[k] = a THEN Fail("C09.ended_inside_block") ELSE Skip
       [] e.e = "fin" ->
            IF ~e.ok THEN Skip
            ELSE IF \E k \in Locks : holder[k] = 0 /\ asked[k] # <<>> THEN Fail("C09.waiter_starved")
            ELSE IF \E k \in Locks : holder[k] = 0 /\ asked[k] = <<>> /\ ~e.free[k] THEN Fail("C09.stuck_locked")
            ELSE Skip
       [] OTHER -> Skip

Spec == Init /\ [][Step]_vars
\* never fails: reports every rejected trace with the failing clause and position
Report == (bad # "") => PrintT(<<"V", tid, bad, l - 1>>)
=============================================================================
