----------------------------- MODULE USimProps -----------------------------
(* Design-level properties of USim, checked by TLC on every MC_* config.   *)
EXTENDS USim

HasScopeFrame(a, s) == \E i \in 1..Len(act[a].stack) : act[a].stack[i].k = "scope" /\ act[a].stack[i].s = s
HeldCount(a, l) == Cardinality({i \in 1..Len(act[a].stack) : act[a].stack[i].k = "held" /\ act[a].stack[i].l = l})

\* C03: the kernel never fails on its own
NoFault == fault \in {"", "stopped:user"}
\* C03: a signal only reaches the activity / wait / scope it was created for
NoForeignSignal ==
  (run # <<>> /\ Cur.mode = "exc" /\ IsInterrupt(Cur.x)) =>
     CASE Cur.x[1] = "wk" -> Cur.x[2] = Cur.a
       [] Cur.x[1] = "ct" -> Cur.x[2] = Cur.a
       [] OTHER -> HasScopeFrame(Cur.a, Cur.x[2]) /\ sc[Cur.x[2]].owner = Cur.a
\* C03: only live activities execute
RunLive == \A i \in 1..Len(run) : act[run[i].a].life = "live"
\* synchronous close cascades never suspend: below the top of `run` sit closers in a closing scope
CascadeShape == \A i \in 1..(Len(run) - 1) :
     LET a == run[i].a IN act[a].stack # <<>> /\ Top(a).k = "scope" /\ Top(a).ph = "closing"

\* C08: when nothing is left to do in a time step, no waiter of a condition that holds is still waiting
\*      (not claimed for the nested-connective deviation, see Leaves in USim)
WaitsFor(a, i) == LET fr == act[a].stack[i] IN
                  IF fr.k = "cwait" THEN Holds(fr.n) ELSE IF fr.k = "conn" THEN Eval(fr.c) ELSE FALSE
NoMissedWake == (Idle /\ pending = <<>> /\ fault = "") =>
   \A a \in Acts : act[a].life = "live" => \A i \in 1..Len(act[a].stack) : ~WaitsFor(a, i)
\* C01: every queued activation lies in the future; dates never lie in the past
FutureOnly == \A t \in Times : t <= now => future[t] = <<>>

\* C12: what left a supply and has not been given back is accounted for by a borrow block in progress or by a
\*      give-back helper that is already scheduled (claimed only for configurations without interrupts, DESIGN.md)
RECURSIVE SumSeq(_)
SumSeq(s) == IF s = <<>> THEN Zero ELSE VAdd(Head(s), SumSeq(Tail(s)))
OutOf(p) ==
  LET RECURSIVE Frames(_) Frames(a) == IF a > MaxActs THEN <<>> ELSE
        [i \in 1..Len(act[a].stack) |->
           IF act[a].stack[i].k = "borrow" /\ act[a].stack[i].p = p /\ act[a].stack[i].ph \in {"rm", "ins", "body", "x1"}
           THEN act[a].stack[i].amt ELSE Zero] \o Frames(a + 1)
      helpers == [i \in 1..Len(pending) |-> IF pending[i].tgt = 0 /\ pending[i].sig[1] = "hlp" /\ pending[i].sig[2] = p
                                                 /\ pending[i].sig[4] THEN pending[i].sig[3] ELSE Zero] IN
  VAdd(SumSeq(Frames(1)), SumSeq(helpers))
Conservation == \A p \in 1..NRes : VAdd(obj.pool[p].level, OutOf(p)) = Vec(ResInit, ResInitB)
ShareBounded == \A p \in (NRes + 1)..MaxPools : VGe(obj.pool[p].debit, obj.pool[p].level)
\* C12: no level ever drops below zero (any type)
NonNegative == \A p \in 1..MaxPools : ~VNeg(obj.pool[p].level)

\* sanity of the specification itself: whoever is executing can take a step (a state in which `run` is not empty
\* and nothing is enabled would silently cut behaviours short and hide everything behind it)
NoStuck == (run # <<>> /\ fault = "") => ENABLED Next

\* C09
MutualExclusion == \A l \in Locks : \A a, b \in Acts : (HeldCount(a, l) > 0 /\ HeldCount(b, l) > 0) => a = b
OwnerConsistent == \A l \in Locks : \A a \in Acts : HeldCount(a, l) > 0 => (lock[l].owner = a /\ lock[l].depth = HeldCount(a, l))
LockFreeWhenUnused == Quiescent =>
   \A l \in Locks : ((\A a \in Acts : HeldCount(a, l) = 0) /\ WaitersOf(subs, NLock(l)) = <<>>) => lock[l].owner = 0

\* C11 (configurations with one channel and no queue: messages are numbered by one counter): the buffer of every
\* subscribed consumer holds exactly the messages put since it subscribed that it has not received yet - a gapless
\* ascending run that ends with the latest message: nothing is missed, nothing is delivered twice or out of order
ChannelExact == \A c \in Chans : \A j \in 1..Len(obj.ch[c].bufs) :
   LET it == obj.ch[c].bufs[j].items IN \A i \in 1..Len(it) : it[i] = cnt.item - Len(it) + i
\* consumers are registered once
ChannelConsumersDistinct == \A c \in Chans : \A i, j \in 1..Len(obj.ch[c].bufs) :
   obj.ch[c].bufs[i].cid = obj.ch[c].bufs[j].cid => i = j
\* C10 (one queue, no channel): the buffer is the gapless run of the items accepted after the last one handed out
QueueExact == \A q \in Queues : LET b == obj.q[q].buf IN
   /\ Len(b) = cnt.item - obj.q[q].got
   /\ \A i \in 1..Len(b) : b[i] = obj.q[q].got + i

\* C04: when a block has ended every task spawned in it is done
Contained == \A s \in Scopes : (sc[s].kind # "none" /\ ~sc[s].open) =>
   \A k \in Acts : (IsTask(k) /\ act[k].life # "unborn" /\ task[k].scope = s) =>
        \/ act[k].life = "done"
        \/ (act[k].life = "new" /\ task[k].done)
        \* first (and last) activation of a task closed before it started: discards the payload
        \/ (act[k].life = "live" /\ task[k].done /\ Stack(k) = <<[k |-> "runner", ph |-> "start"]>>)
\* C04: a task never executes a step after its scope has ended
NoStepAfterExit == \A i \in 1..Len(ev) :
   (ev[i].e \in {"b", "r", "x", "p"} /\ IsTask(ev[i].a)) => sc[task[ev[i].a].scope].open
\* C06: done is final and agrees with the life cycle
DoneStable == \A k \in Acts : (IsTask(k) /\ task[k].done) => task[k].res # NoSig
\* ---------------------------------------------------------------------------
\* Liveness (C03 "no livelock", design level): with a finite operation budget every behaviour of the kernel
\* that keeps taking enabled steps reaches quiescence (or reports a fault).  Checked under weak fairness of Next.
FairSpec == Spec /\ WF_vars(Next)
Termination == <>(Quiescent \/ fault # "")
=========================================================================
