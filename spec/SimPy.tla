-------------------------------- MODULE SimPy --------------------------------
(* History space of the usim.py resources (C19) and sanity laws of SimPySem. *)
EXTENDS SimPySem, TLC, Json
CONSTANTS MaxLen
VARIABLES sc
O(op, a, p, pre) == [op |-> op, a |-> a, p |-> p, pre |-> pre]
Ops(kind) ==
  CASE kind = "Container" -> {O("put", a, 0, FALSE) : a \in {1, 2}} \cup {O("get", a, 0, FALSE) : a \in {1, 2}}
                             \cup {O("cancel", a, 0, FALSE) : a \in 1..3}
    [] kind = "Store" -> {O("put", 0, 0, FALSE), O("get", 0, 0, FALSE)} \cup {O("cancel", a, 0, FALSE) : a \in 1..3}
    [] kind = "PriorityStore" -> {O("put", 0, p, FALSE) : p \in 1..3} \cup {O("get", 0, 0, FALSE)}
    [] kind = "FilterStore" -> {O("put", 0, 0, FALSE)} \cup {O("get", f, 0, FALSE) : f \in 0..3}
    [] kind = "Resource" -> {O("request", 0, 0, FALSE), O("use", 0, 0, FALSE)} \cup {O("release", a, 0, FALSE) : a \in 1..3}
                            \cup {O("cancel", a, 0, FALSE) : a \in 1..3}
    [] kind = "PriorityResource" -> {O("request", 0, p, TRUE) : p \in 0..2} \cup {O("use", 0, 1, TRUE)} \cup {O("release", a, 0, FALSE) : a \in 1..2}
    [] OTHER -> {O("request", 0, p, pre) : p \in 0..2, pre \in BOOLEAN} \cup {O("release", a, 0, FALSE) : a \in 1..2}
Kinds == {"Container", "Store", "PriorityStore", "FilterStore", "Resource", "PriorityResource", "PreemptiveResource"}
Caps(kind) == IF kind = "Container" THEN {2, 3} ELSE {1, 2}
Inits(kind) == IF kind = "Container" THEN {0, 1} ELSE {0}
\* FilterStore gets one more operation when two of them share a time step (several items at one queue evaluation)
LenOf(kind) == IF kind = "FilterStore" THEN MaxLen + 1 ELSE MaxLen
Init == \E kind \in Kinds : \E cap \in Caps(kind) : \E init \in Inits(kind) : \E n \in 1..LenOf(kind) :
          \E h \in [1..n -> Ops(kind)] : \E pair \in 0..(n - 1) :
             /\ (n > MaxLen => pair > 0)
             \* same-step pairs of puts / gets on the stores (grants triggered by callbacks happen later in the same step;
             \* with cancel / release in the pair the deferred callbacks matter and the sequential semantics does not apply)
             /\ (pair > 0 => (kind \in {"Store", "FilterStore", "Container"}
                              /\ h[pair].op \in {"put", "get"} /\ h[pair + 1].op \in {"put", "get"}))
             /\ sc = [kind |-> kind, cap |-> cap, init |-> init, hist |-> h, pair |-> pair]
Next == UNCHANGED sc
Spec == Init /\ [][Next]_sc
Fin == RunP(New(sc.kind, sc.cap, sc.init), sc.hist, 1, sc.pair)
\* laws
WithinCapacity == /\ Fin.level <= sc.cap /\ Len(Fin.items) <= sc.cap /\ Len(Fin.users) <= sc.cap
RECURSIVE Sum(_)
Sum(S) == IF S = {} THEN 0 ELSE LET x == CHOOSE x \in S : TRUE IN sc.hist[x].a + Sum(S \ {x})
Conserved == sc.kind = "Container" =>
   Fin.level + Sum({i \in Fin.granted : sc.hist[i].op = "get"}) = sc.init + Sum({i \in Fin.granted : sc.hist[i].op = "put"})
ItemsOnce == \A i, j \in 1..Len(Fin.got) : i # j => Fin.got[i].item # Fin.got[j].item
\* nothing grantable is left pending, unless a cancel just made room (a cancel examines no queue)
Settled == (\A i \in 1..Len(sc.hist) : sc.hist[i].op # "cancel") => (~CanPut(Fin) /\ NextGet(Fin) = 0)
Emit == PrintT(<<"W", ToJson(sc)>>)
=============================================================================
