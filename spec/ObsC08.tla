------------------------------- MODULE ObsC08 -------------------------------
(* C08 - Awaiting a condition returns only when it is true, and is never    *)
(*       missed                                                             *)
EXTENDS ObsBase
Ids == 1..16
VARIABLES tid, l, flg, done, now, waits, bad
vars == <<tid, l, flg, done, now, waits, bad>>
\* waits: set of [a, c] - awaits in progress;  flg / done / now mirror the atoms from the observed events
Init == /\ tid \in 1..N /\ l = 1 /\ bad = "" /\ now = 0
        /\ flg = [f \in 1..4 |-> FALSE] /\ done = {} /\ waits = {}

\* independent evaluator of condition expressions over the observed atom values
RECURSIVE Ev(_, _, _, _)
Ev(c, fl, dn, t) ==
  CASE c[1] = "flag"  -> fl[c[2]]
    [] c[1] = "nflag" -> ~fl[c[2]]
    [] c[1] = "done"  -> c[2] \in dn
    [] c[1] = "ndone" -> c[2] \notin dn
    [] c[1] = "ge"    -> t >= c[2]
    [] c[1] = "lt"    -> t < c[2]
    [] c[1] = "eq"    -> t = c[2]
    [] c[1] = "inst"  -> TRUE
    [] c[1] = "etern" -> FALSE
    [] c[1] = "all"   -> \A i \in 1..Len(c[2]) : Ev(c[2][i], fl, dn, t)
    [] c[1] = "any"   -> \E i \in 1..Len(c[2]) : Ev(c[2][i], fl, dn, t)
    [] OTHER -> FALSE
Nested(c) == c[1] \in {"all", "any"} /\ \E i \in 1..Len(c[2]) : c[2][i][1] \in {"all", "any"}
CondOf(e) == IF e.op = "await_f" THEN (IF e.v THEN <<"flag", e.f>> ELSE <<"nflag", e.f>>) ELSE e.c

Fail(c) == bad' = c /\ UNCHANGED <<flg, done, now, waits>>
Step ==
  /\ l <= Len(Traces[tid]) /\ bad = ""
  /\ l' = l + 1 /\ UNCHANGED tid
  /\ LET e == Traces[tid][l] a == F(e, "a", 0) op == F(e, "op", "") t == F(e, "t", now)
         \* waiters whose condition holds at the END of the time step that is now over
         stuck == {w \in waits : Ev(w.c, flg, done, now)} IN
     IF (t > now \/ (e.e = "fin" /\ e.ok)) /\ stuck # {}
     THEN (IF \E w \in stuck : Nested(w.c) THEN Fail("C08.left_waiting_nested") ELSE Fail("C08.left_waiting"))
     ELSE
     /\ now' = t
     /\ CASE e.e = "b" /\ op = "fset" ->
               flg' = [flg EXCEPT ![e.f] = e.v] /\ UNCHANGED <<done, waits, bad>>
          [] e.e = "end" ->
               \* the task is done as soon as its code has ended (awaiters are woken in the same activation)
               /\ done' = done \cup {a} /\ waits' = {w \in waits : w.a # a} /\ UNCHANGED <<flg, bad>>
          [] e.e = "b" /\ op \in {"await_c", "await_f"} ->
               waits' = waits \cup {[a |-> a, c |-> CondOf(e)]} /\ UNCHANGED <<flg, done, bad>>
          [] e.e = "r" /\ op \in {"await_c", "await_f"} ->
               LET ws == {w \in waits : w.a = a} IN
               IF \E w \in ws : ~Ev(w.c, flg, done, t) THEN Fail("C08.false_at_resume")
               ELSE waits' = waits \ ws /\ UNCHANGED <<flg, done, bad>>
          [] e.e \in {"x", "u"} /\ op \in {"await_c", "await_f"} ->
               waits' = {w \in waits : w.a # a} /\ UNCHANGED <<flg, done, bad>>
          [] e.e = "p" /\ op = "probe_c" ->
               IF e.v # Ev(e.c, flg, done, t) THEN Fail("C08.algebra_value")
               ELSE IF e.nv # ~Ev(e.c, flg, done, t) THEN Fail("C08.algebra_inverse")
               ELSE UNCHANGED <<flg, done, waits, bad>>
          [] OTHER -> UNCHANGED <<flg, done, waits, bad>>
Spec == Init /\ [][Step]_vars
Report == (bad # "") => PrintT(<<"V", tid, bad, l - 1>>)
=============================================================================
