------------------------------- MODULE ObsC08 -------------------------------
(* C08 - Awaiting a condition returns only when it is true, and is never    *)
(*       missed                                                             *)
EXTENDS ObsBase
Ids == 1..16
VARIABLES tid, l, flg, done, now, waits, lvl, bad
vars == <<tid, l, flg, done, now, waits, lvl, bad>>
\* waits: set of [a, c] - awaits in progress;  flg / done / now mirror the atoms from the observed events
Init == /\ tid \in 1..N /\ l = 1 /\ bad = "" /\ now = 0
        /\ flg = [f \in 1..4 |-> FALSE] /\ done = {} /\ waits = {} /\ lvl = [p \in 1..2 |-> 0]

\* independent evaluator of condition expressions over the observed atom values
RECURSIVE Ev(_, _, _, _)
Ev(c, fl, dn, t) ==
  \* (resource-level comparisons read the mirrored level `lvl`)
  CASE c[1] = "flag"  -> fl[c[2]]
    [] c[1] = "nflag" -> ~fl[c[2]]
    [] c[1] = "done"  -> c[2] \in dn
    [] c[1] = "ndone" -> c[2] \notin dn
    [] c[1] = "ge"    -> t >= c[2]
    [] c[1] = "lt"    -> t < c[2]
    [] c[1] = "eq"    -> t = c[2]
    [] c[1] = "inst"  -> TRUE
    [] c[1] = "etern" -> FALSE
    [] c[1] = "lvl"   -> lvl[c[2]] >= c[3]
    [] c[1] = "all"   -> \A i \in 1..Len(c[2]) : Ev(c[2][i], fl, dn, t)
    [] c[1] = "any"   -> \E i \in 1..Len(c[2]) : Ev(c[2][i], fl, dn, t)
    [] OTHER -> FALSE
Nested(c) == c[1] \in {"all", "any"} /\ \E i \in 1..Len(c[2]) : c[2][i][1] \in {"all", "any"}
CondOf(e) == IF e.op = "await_f" THEN (IF e.v THEN <<"flag", e.f>> ELSE <<"nflag", e.f>>)
             ELSE IF e.op = "await_lvl" THEN <<"lvl", e.p, e.v>> ELSE e.c

Fail(c) == bad' = c /\ UNCHANGED <<flg, done, now, waits>>
GetL(q, i) == IF i <= Len(q) THEN q[i] ELSE 0
Step ==
  /\ l <= Len(Traces[tid]) /\ bad = ""
  /\ l' = l + 1 /\ UNCHANGED tid
  /\ lvl' = LET e0 == Traces[tid][l] o == F(e0, "op", "") IN
            IF e0.e = "init" THEN [p \in 1..2 |-> GetL(e0.res, p)]
            ELSE IF e0.e = "b" /\ o = "inc" /\ e0.p \in 1..2 THEN [lvl EXCEPT ![e0.p] = @ + e0.amt]
            ELSE IF e0.e = "b" /\ o = "dec" /\ e0.p \in 1..2 THEN [lvl EXCEPT ![e0.p] = @ - e0.amt]
            ELSE IF e0.e = "b" /\ o = "rset" /\ e0.p \in 1..2 THEN [lvl EXCEPT ![e0.p] = e0.amt]
            ELSE lvl
  /\ LET e == Traces[tid][l] a == F(e, "a", 0) op == F(e, "op", "") t == F(e, "t", now)
         \* waiters whose condition holds at the END of the time step that is now over
         stuck == {w \in waits : Ev(w.c, flg, done, now)} IN
     IF (t > now \/ (e.e = "fin" /\ e.ok)) /\ stuck # {}
     THEN (IF \E w \in stuck : Nested(w.c) THEN Fail("C08.left_waiting_nested") ELSE Fail("C08.left_waiting"))
     ELSE
     /\ now' = t
     /\ CASE e.e = "b" /\ op = "fset" ->
               flg' = [flg EXCEPT ![e.f] = e.v] /\ UNCHANGED <<done, waits, bad>>
          [] e.e = "end" ->
               \* the task is done as soon as its code has ended (awaiters are woken in the same activation)
               /\ done' = done \cup {a} /\ waits' = {w \in waits : w.a # a} /\ UNCHANGED <<flg, bad>>
          [] e.e = "b" /\ op \in {"await_c", "await_f", "await_lvl"} ->
               waits' = waits \cup {[a |-> a, c |-> CondOf(e)]} /\ UNCHANGED <<flg, done, bad>>
          [] e.e = "r" /\ op \in {"await_c", "await_f", "await_lvl"} ->
               LET ws == {w \in waits : w.a = a} IN
               IF \E w \in ws : ~Ev(w.c, flg, done, t) THEN Fail("C08.false_at_resume")
               ELSE waits' = waits \ ws /\ UNCHANGED <<flg, done, bad>>
          [] e.e \in {"x", "u"} /\ op \in {"await_c", "await_f", "await_lvl"} ->
               waits' = {w \in waits : w.a # a} /\ UNCHANGED <<flg, done, bad>>
          [] e.e = "p" /\ op = "probe_c" ->
               IF e.v # Ev(e.c, flg, done, t) THEN Fail("C08.algebra_value")
               ELSE IF e.nv # ~Ev(e.c, flg, done, t) THEN Fail("C08.algebra_inverse")
               ELSE UNCHANGED <<flg, done, waits, bad>>
          [] OTHER -> UNCHANGED <<flg, done, waits, bad>>
Spec == Init /\ [][Step]_vars
Report == (bad # "") => PrintT(<<"V", tid, bad, l - 1>>)
=============================================================================
