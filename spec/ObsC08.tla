------------------------------- MODULE ObsC08 -------------------------------
(* C08 - Awaiting a condition returns only when it is true, and is never    *)
(*       missed                                                             *)
EXTENDS ObsBase
Ids == 1..16
VARIABLES tid, l, flg, done, now, waits, lvl, bad, acq, rel, held, taint, unw
vars == <<tid, l, flg, done, now, waits, lvl, bad, acq, rel, held, taint, unw>>
\* lvl[p]: level of supply p as committed by completed operations; acq / rel: borrow blocks being entered / left
\* ([a, p, amt]: the transfer happens somewhere between the begin and the return event); held[a]: blocks activity
\* a is inside, innermost last; taint: supplies whose level the events no longer determine (interrupted transfers)
\* waits: set of [a, c] - awaits in progress;  flg / done / now mirror the atoms from the observed events
Init == /\ tid \in 1..N /\ l = 1 /\ bad = "" /\ now = 0
        /\ flg = [f \in 1..4 |-> FALSE] /\ done = {} /\ waits = {} /\ lvl = [p \in 1..2 |-> Zero]
        /\ acq = {} /\ rel = {} /\ held = [i \in Ids |-> <<>>] /\ taint = {1, 2} /\ unw = {}
\* levels and amounts are vectors <<a, b>> over the resource types of a supply (one type: b = 0 throughout)
Amt(e) == <<F(e, "amt", 0), F(e, "amtb", 0)>>
RECURSIVE SumAmt(_)
SumAmt(S) == IF S = {} THEN Zero ELSE LET x == CHOOSE y \in S : TRUE IN VAdd(x.amt, SumAmt(S \ {x}))
LvLo(p) == VSub(lvl[p], SumAmt({x \in acq : x.p = p}))
RECURSIVE SumSeq(_, _)
SumSeq(q, p) == IF q = <<>> THEN Zero ELSE VAdd(IF Head(q).p = p THEN Head(q).amt ELSE Zero, SumSeq(Tail(q), p))
RECURSIVE SumUnw(_, _)
SumUnw(S, p) == IF S = {} THEN Zero ELSE LET a == CHOOSE y \in S : TRUE IN VAdd(SumSeq(held[a], p), SumUnw(S \ {a}, p))
LvHi(p) == VAdd(VAdd(lvl[p], SumAmt({x \in rel : x.p = p})), SumUnw(unw, p))
\* what holders that were closed forcefully (GeneratorExit in the block) hold: helper activities give it back within
\* the time step, so at the END of the step it is certainly back
HlpAmt(p) == SumAmt({x \in rel : x.p = p /\ x.hlp})

\* `x <rel> v` for a level vector x known to lie in lo..hi (per type), nt resource types: certainly (sure) /
\* possibly true.  >=, >, <=, < hold iff they hold for every type, == iff every type is equal, != is its negation.
RelIv(lo, hi, op, v, sure, nt) ==
  LET T == 1..nt
      EqSure == \A i \in T : lo[i] = v[i] /\ hi[i] = v[i]
      EqPoss == \A i \in T : lo[i] <= v[i] /\ v[i] <= hi[i] IN
  CASE op = "ge" -> \A i \in T : (IF sure THEN lo[i] ELSE hi[i]) >= v[i]
    [] op = "gt" -> \A i \in T : (IF sure THEN lo[i] ELSE hi[i]) > v[i]
    [] op = "le" -> \A i \in T : (IF sure THEN hi[i] ELSE lo[i]) <= v[i]
    [] op = "lt" -> \A i \in T : (IF sure THEN hi[i] ELSE lo[i]) < v[i]
    [] op = "eq" -> IF sure THEN EqSure ELSE EqPoss
    [] OTHER      -> IF sure THEN ~EqPoss ELSE ~EqSure
\* independent evaluator of condition expressions over the observed atom values
\* sure = TRUE: the condition certainly holds; sure = FALSE: it possibly holds (they differ only for resource levels
\* while a borrow block is being entered or left)
RECURSIVE EvM(_, _, _, _, _, _)
EvM(c, fl, dn, t, sure, eos) ==
  \* (resource-level comparisons read the mirrored level `lvl`)
  CASE c[1] = "flag"  -> fl[c[2]]
    [] c[1] = "nflag" -> ~fl[c[2]]
    [] c[1] = "done"  -> c[2] \in dn
    [] c[1] = "ndone" -> c[2] \notin dn
    [] c[1] = "ge"    -> t >= c[2]
    [] c[1] = "lt"    -> t < c[2]
    [] c[1] = "eq"    -> t = c[2]
    [] c[1] = "inst"  -> TRUE
    [] c[1] = "etern" -> FALSE
    [] c[1] = "lvl"   -> IF c[2] \in taint THEN ~sure
                         ELSE RelIv(IF eos THEN VAdd(LvLo(c[2]), HlpAmt(c[2])) ELSE LvLo(c[2]), LvHi(c[2]), c[4], c[3], sure, c[5])
    [] c[1] = "all"   -> \A i \in 1..Len(c[2]) : EvM(c[2][i], fl, dn, t, sure, eos)
    [] c[1] = "any"   -> \E i \in 1..Len(c[2]) : EvM(c[2][i], fl, dn, t, sure, eos)
    [] OTHER -> FALSE
Ev(c, fl, dn, t) == EvM(c, fl, dn, t, TRUE, FALSE)
EvEnd(c, fl, dn, t) == EvM(c, fl, dn, t, TRUE, TRUE)       \* at the end of the time step
Poss(c, fl, dn, t) == EvM(c, fl, dn, t, FALSE, FALSE)
Nested(c) == c[1] \in {"all", "any"} /\ \E i \in 1..Len(c[2]) : c[2][i][1] \in {"all", "any"}
CondOf(e) == IF e.op = "await_f" THEN (IF e.v THEN <<"flag", e.f>> ELSE <<"nflag", e.f>>)
             ELSE IF e.op = "await_lvl" THEN <<"lvl", e.p, <<e.v, F(e, "vb", 0)>>, F(e, "rel", "ge"), F(e, "nt", 1)>> ELSE e.c

Fail(c) == bad' = c /\ UNCHANGED <<flg, done, waits>>
DropLast1(q) == SubSeq(q, 1, Len(q) - 1)
\* the amount of the call activity a has in progress (its latest begin event)
RECURSIVE PendAt(_, _)
PendAt(a, i) == IF i < 1 THEN Zero ELSE LET e == Traces[tid][i] IN
                IF e.e = "b" /\ F(e, "a", 0) = a THEN Amt(e) ELSE PendAt(a, i - 1)
Pend(a) == PendAt(a, l - 1)
GetL(q, i) == IF i <= Len(q) THEN q[i] ELSE 0
Step ==
  /\ l <= Len(Traces[tid]) /\ bad = ""
  /\ l' = l + 1 /\ UNCHANGED tid
  /\ LET e0 == Traces[tid][l] o == F(e0, "op", "") a0 == F(e0, "a", 0) p0 == F(e0, "p", F(e0, "id", 0))
         mine == {x \in acq : x.a = a0}  ret == {x \in rel : x.a = a0}
         isres == F(e0, "blk", "") = "res"
         top == IF a0 \in Ids /\ held[a0] # <<>> THEN held[a0][Len(held[a0])] ELSE [p |-> p0, amt |-> Zero]
         Anon(S) == {[x EXCEPT !.a = 0] : x \in S} IN
     \* changes of the level itself take effect with the call (and not at all if the call is refused)
     /\ lvl' = IF e0.e = "init" THEN [p \in 1..2 |-> <<GetL(e0.res, p), IF "resb" \in DOMAIN e0 THEN GetL(e0.resb, p) ELSE 0>>]
               ELSE IF p0 \notin 1..2 THEN lvl
               ELSE IF e0.e = "b" /\ o = "inc" THEN [lvl EXCEPT ![p0] = VAdd(@, Amt(e0))]
               ELSE IF e0.e = "b" /\ o = "dec" THEN [lvl EXCEPT ![p0] = VSub(@, Amt(e0))]
               \* set() replaces only the types it names (mask 1: a, 2: b, 3: both)
               ELSE IF e0.e = "b" /\ o = "rset" THEN LET m == F(e0, "mask", 3) IN
                    [lvl EXCEPT ![p0] = <<IF m \in {1, 3} THEN Amt(e0)[1] ELSE @[1], IF m \in {2, 3} THEN Amt(e0)[2] ELSE @[2]>>]
               ELSE IF e0.e = "x" /\ o = "dec" THEN [lvl EXCEPT ![p0] = VAdd(@, Pend(a0))]
               ELSE IF e0.e = "x" /\ o = "inc" THEN [lvl EXCEPT ![p0] = VSub(@, Pend(a0))]
               ELSE IF e0.e = "r" /\ o \in {"borrow", "claim"} THEN [lvl EXCEPT ![p0] = VSub(@, SumAmt(mine))]
               ELSE IF e0.e = "r" /\ o = "leave" /\ isres THEN [lvl EXCEPT ![p0] = VAdd(@, SumAmt(ret))]
               ELSE lvl
     \* a block whose entering / leaving is cut short stays undetermined for good (a = 0: nobody completes it)
     /\ acq' = IF e0.e = "b" /\ o \in {"borrow", "claim"} THEN acq \cup {[n |-> l, a |-> a0, p |-> p0, amt |-> Amt(e0)]}
               ELSE IF e0.e \in {"r", "x"} /\ o \in {"borrow", "claim"} THEN acq \ mine
               ELSE IF e0.e = "u" /\ o \in {"borrow", "claim"} THEN (acq \ mine) \cup Anon(mine)
               ELSE acq
     /\ held' = IF a0 \notin Ids THEN held
                ELSE IF e0.e = "r" /\ o \in {"borrow", "claim"} /\ mine # {}
                     THEN [held EXCEPT ![a0] = Append(@, [p |-> p0, amt |-> SumAmt(mine)])]
                ELSE IF isres /\ held[a0] # <<>> /\ ((e0.e = "b" /\ o = "leave") \/ (e0.e = "u" /\ o = "body"))
                     THEN [held EXCEPT ![a0] = DropLast1(@)]
                ELSE held
     /\ rel' = IF e0.e = "b" /\ o = "leave" /\ isres THEN rel \cup {[n |-> l, a |-> a0, p |-> top.p, amt |-> top.amt, hlp |-> FALSE]}
               ELSE IF e0.e = "u" /\ o = "body" /\ isres
                    THEN rel \cup {[n |-> l, a |-> 0, p |-> top.p, amt |-> top.amt, hlp |-> F(e0, "exc", <<"none">>)[1] = "genexit"]}
               ELSE IF e0.e = "r" /\ o = "leave" /\ isres THEN rel \ ret
               ELSE IF e0.e = "u" /\ o = "leave" /\ isres THEN (rel \ ret) \cup Anon(ret)
               ELSE rel
     \* activities an exception / cancellation is passing through: their blocks may be giving back already
     /\ unw' = IF a0 \notin Ids THEN unw
               ELSE IF e0.e = "u" \/ (e0.e = "b" /\ o = "raise") THEN unw \cup {a0}
               ELSE IF e0.e \in {"b", "end"} THEN unw \ {a0} ELSE unw
     \* a level change that is cut short leaves the level undetermined
     /\ taint' = IF e0.e = "init" THEN {p \in 1..2 : p > Len(e0.res)}
                 ELSE IF (e0.e = "u" /\ o \in {"inc", "dec", "rset"}) \/ (e0.e = "x" /\ o = "rset") THEN taint \cup {p0}
                 ELSE taint
  /\ LET e == Traces[tid][l] a == F(e, "a", 0) op == F(e, "op", "") t == F(e, "t", now)
         \* waiters whose condition holds at the END of the time step that is now over
         stuck == {w \in waits : EvEnd(w.c, flg, done, now)} IN
     IF (t > now \/ (e.e = "fin" /\ e.ok)) /\ stuck # {}
     THEN (IF \E w \in stuck : Nested(w.c) THEN Fail("C08.left_waiting_nested") ELSE Fail("C08.left_waiting")) /\ now' = now
     \* the run is over and reports the levels as they ARE (whatever the mirror could follow): a plain comparison that
     \* holds for them and still has a waiter was missed
     ELSE IF e.e = "fin" /\ e.ok /\ "levels" \in DOMAIN e
             /\ \E w \in waits : w.c[1] = "lvl" /\ w.c[2] \in 1..Len(e.levels)
                    /\ LET fl == <<e.levels[w.c[2]], IF "levelsb" \in DOMAIN e THEN GetL(e.levelsb, w.c[2]) ELSE 0>> IN
                       RelIv(fl, fl, w.c[4], w.c[3], TRUE, w.c[5])
     THEN Fail("C08.left_waiting") /\ now' = now
     ELSE
     /\ now' = t
     /\ CASE e.e = "b" /\ op = "fset" ->
               flg' = [flg EXCEPT ![e.f] = e.v] /\ UNCHANGED <<done, waits, bad>>
          [] e.e = "end" ->
               \* the task is done as soon as its code has ended (awaiters are woken in the same activation)
               /\ done' = done \cup {a} /\ waits' = {w \in waits : w.a # a} /\ UNCHANGED <<flg, bad>>
          [] e.e = "b" /\ op \in {"await_c", "await_f", "await_lvl"} ->
               waits' = waits \cup {[a |-> a, c |-> CondOf(e)]} /\ UNCHANGED <<flg, done, bad>>
          [] e.e = "r" /\ op \in {"await_c", "await_f", "await_lvl"} ->
               LET ws == {w \in waits : w.a = a} IN
               IF \E w \in ws : ~Poss(w.c, flg, done, t) THEN Fail("C08.false_at_resume")
               ELSE waits' = waits \ ws /\ UNCHANGED <<flg, done, bad>>
          [] e.e \in {"x", "u"} /\ op \in {"await_c", "await_f", "await_lvl"} ->
               waits' = {w \in waits : w.a # a} /\ UNCHANGED <<flg, done, bad>>
          [] e.e = "p" /\ op = "probe_c" ->
               IF e.v # Ev(e.c, flg, done, t) THEN Fail("C08.algebra_value")
               ELSE IF e.nv # ~Ev(e.c, flg, done, t) THEN Fail("C08.algebra_inverse")
               ELSE UNCHANGED <<flg, done, waits, bad>>
          [] OTHER -> UNCHANGED <<flg, done, waits, bad>>
Spec == Init /\ [][Step]_vars
Report == (bad # "") => PrintT(<<"V", tid, bad, l - 1>>)
=============================================================================
