SPECIFICATION Spec
INVARIANT Permuted
INVARIANT Duplicated
INVARIANT InclusiveWidens
INVARIANT ExactSelf
INVARIANT Covariant
CHECK_DEADLOCK FALSE
