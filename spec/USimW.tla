------------------------------- MODULE USimW -------------------------------
(* Witness generation: hidden history variables record the program chosen   *)
(* by the most general client and the events the model expects.  The VIEW   *)
(* hides them, so TLC still explores each distinct USim state once; for     *)
(* every terminal state it prints one program reaching it.                  *)
EXTENDS USimProps, Json
VARIABLES prog, exp
varsW == <<vars, prog, exp>>

IsOp(x) == x.e \in {"b", "p"} /\ ~("implicit" \in DOMAIN x /\ x.implicit)
OpsIn(evs) == SelectSeq(evs, IsOp)
InitW == Init /\ prog = [a \in Acts |-> <<>>] /\ exp = <<>>
NextW == /\ Next
         /\ prog' = IF OpsIn(ev') # <<>> THEN [prog EXCEPT ![OpsIn(ev')[1].a] = Append(@, OpsIn(ev')[1])] ELSE prog
         /\ exp' = exp \o ev'
SpecW == InitW /\ [][NextW]_varsW
View == vars
Terminal == fault # "" \/ Quiescent
\* one program for every distinct state reached right after a client operation (and every terminal state)
EmitOps == (Terminal \/ OpsIn(ev) # <<>>) => PrintT(<<"W", ToJson([prog |-> prog, exp |-> exp, fault |-> fault, now |-> now, term |-> Terminal])>>)
Emit == Terminal => PrintT(<<"W", ToJson([prog |-> prog, exp |-> exp, fault |-> fault, now |-> now, term |-> TRUE])>>)
=============================================================================
