------------------------------- MODULE USim -------------------------------
(***************************************************************************)
(* Operational specification of the muSim kernel and the primitives built  *)
(* on it, with a MOST GENERAL CLIENT: every activity chooses its next      *)
(* operation non-deterministically from `Menu`.                            *)
(*                                                                         *)
(* One action = one critical section of the code.  An activation of the    *)
(* real loop (resume -> next Hibernate) is a chain of such steps; `run`    *)
(* says who is executing and whether control arrives at the top frame by   *)
(* normal return ("ret") or by an exception / signal ("exc").              *)
(* Every activity carries a stack of frames (innermost last) mirroring the *)
(* Python frames / with-blocks of the implementation.                      *)
(* Signals are identified structurally and revocation PURGES them.         *)
(* `ev` holds the observable events emitted by the last step; the puppet   *)
(* harness records the same events from the real code.                     *)
(***************************************************************************)
EXTENDS Naturals, Sequences, FiniteSets, TLC

CONSTANTS
  NRoots,      \* root activities 1..NRoots, started by run() in this order
  MaxActs,     \* bound on activities (roots + spawned tasks)
  MaxScopes,   \* bound on scopes opened in one behaviour
  RootOps,     \* op budget of a root activity
  TaskOps,     \* op budget of a spawned task
  Horizon,     \* largest date
  NFlags, NLocks, NQueues, NChans,
  NRes, MaxPools, ResInit, MaxLevel,   \* resource supplies 1..NRes with initial level ResInit; pools incl. shares
  NT, ResInitB, AmtMax,                \* resource types per supply (1: `a`; 2: `a` and `b`), initial level of `b`, largest amount per type
  TickSel,     \* name of the list of tickers the client may iterate (see TickTable)
  CondSel,     \* name of the set of connective expressions the client may await (see CondTable)
  Menu         \* set of client operations enabled in this configuration

Acts   == 1..MaxActs
Scopes == 1..MaxScopes
Flags  == 1..NFlags
Locks  == 1..NLocks
Queues == 1..NQueues
Chans  == 1..NChans
AllLocks == 1..(NLocks + NQueues)   \* lock NLocks+q is the read mutex of queue q
Mutex(q) == NLocks + q
Times  == 1..Horizon
Classes == {"Key", "Index", "Assert"}        \* classes of client exceptions
\* Scope.PROMOTE_CONCURRENT: failures of CHILDREN are tested with isinstance, the exception passing through the
\* body with the exact type.  "AssertSub" is an application-specific subclass of a privileged type.
Priv(c) == c \in {"Assert", "AssertSub"}
PrivExact(c) == c = "Assert"

VARIABLES
  now,      \* Loop.time
  pending,  \* Loop._pending : Seq of activations [tgt, sig]
  future,   \* Loop._activations : date -> Seq of activations
  act,      \* activity -> [life, stack, ops, cur]
  run,      \* stack of [a, mode, x]; <<>> = loop is between activations
  task,     \* activity (task) -> [scope, vol, res, done, ncan]
  sc,       \* scope -> [owner, kind, open, inter, children, volatile, failures, notif, bodydone]
  subs,     \* Seq of [n, w, sig]: subscriptions to notifications, oldest first
  flag,     \* flag -> BOOLEAN
  lock,     \* lock -> [owner, depth]
  obj,      \* state of streams: [q: queue -> [buf, closed], ch: channel -> [closed, bufs]]
  cnt,      \* [act, sc, exc, item, cons] allocation counters
  fault,    \* "" or the name of an internal failure of the kernel
  ev        \* events emitted by the last step

vars == <<now, pending, future, act, run, task, sc, subs, flag, lock, obj, cnt, fault, ev>>

----------------------------------------------------------------------------
\* values
NoSig  == <<>>
NoCur  == [op |-> "none"]
GenExit == <<"genexit">>
Wk(a, d)  == <<"wk", a, d>>        \* wake-up of the wait frame at depth d of a
Cs(s)     == <<"cs", s>>           \* Scope._cancel_self
Ci(s)     == <<"ci", s>>           \* InterruptScope._interrupt
Ct(k, n)  == <<"ct", k, n>>        \* n-th CancelTask of task k
Exc(i, c) == <<"exc", i, c>>       \* client exception object i of class c
Conc(xs)  == <<"conc", xs>>        \* Concurrent(*xs)
TCan(k)   == <<"tcancelled", k>>   \* TaskCancelled(k)
TClo(k)   == <<"tclosed", k>>      \* TaskClosed / VolatileTaskClosed
SClosed(s) == <<"scopeclosed", s>> \* ScopeClosed
StreamClosed(k, i) == <<"streamclosed", k, i>>   \* StreamClosed of queue ("q") / channel ("ch") i
StopIter == <<"stopiter">>        \* StopAsyncIteration: an `async for` over a stream ends

IsInterrupt(x) == x # NoSig /\ x[1] \in {"wk", "cs", "ci", "ct"}
IsGenExit(x)   == x = GenExit
\* subclasses of Exception (what a client `except Exception` catches)
IsException(x) == x # NoSig /\ x[1] \in {"exc", "conc", "tcancelled", "tclosed", "scopeclosed", "streamclosed", "stopiter", "unavailable", "exceeded"}

Actv(t, s) == [tgt |-> t, sig |-> s]
Purge(q, s) == SelectSeq(q, LAMBDA y : y.sig # s)
PurgeF(f, s) == [t \in Times |-> Purge(f[t], s)]
PurgeCt(q, k) == SelectSeq(q, LAMBDA y : ~(y.sig # NoSig /\ y.sig[1] = "ct" /\ y.sig[2] = k))
Pop(s) == SubSeq(s, 1, Len(s) - 1)
Without(s, y) == SelectSeq(s, LAMBDA z : z # y)
Last(s) == s[Len(s)]

Idle == run = <<>>
Cur  == Last(run)
Stack(a) == act[a].stack
Top(a) == Last(act[a].stack)
Depth(a) == Len(act[a].stack)
SetTop(ac, a, fr) == [ac EXCEPT ![a].stack = Append(Pop(@), fr)]
Push(ac, a, fr)   == [ac EXCEPT ![a].stack = Append(@, fr)]
Drop(ac, a)       == [ac EXCEPT ![a].stack = Pop(@)]
SetRun(m, x) == run' = Append(Pop(run), [a |-> Cur.a, mode |-> m, x |-> x])
Hibernate == run' = Pop(run)      \* only legal when Len(run) = 1, see NoAwaitInClose

E(r) == <<r>>

\* notifications
NFlag(f)  == <<"flag", f>>
NNFlag(f) == <<"nflag", f>>
NDone(k)  == <<"done", k>>
NLock(l)  == <<"lock", l>>
NBody(s)  == <<"body", s>>        \* Scope._body_done
NQ(q)     == <<"q", q>>           \* Queue._notification
NCh(c)    == <<"ch", c>>          \* Channel._notification

\* the six comparisons of a tracked value (usim/_basics/tracked.py)
Rels == {"ge", "le", "gt", "lt", "eq", "ne"}
\* Levels and amounts are vectors <<a, b>> over the resource types 1..NT (ResourceLevels, _resource_level.py):
\* arithmetic is elementwise; >=, <=, >, < hold iff they hold for EVERY type, == iff all are equal, != is its negation.
\* With NT = 1 the second component is 0 throughout and takes no part in comparisons.
Types == 1..NT
Vec(x, y) == <<x, y>>
Zero == <<0, 0>>
VAdd(x, y) == <<x[1] + y[1], x[2] + y[2]>>
VSub(x, y) == <<x[1] - y[1], x[2] - y[2]>>
VGe(x, y) == \A i \in Types : x[i] >= y[i]
VNeg(x) == \E i \in Types : x[i] < 0
Amts == IF NT = 1 THEN {<<x, 0>> : x \in 0..AmtMax} ELSE {<<x, y>> : x, y \in 0..AmtMax}
RelHolds(x, rel, v) == CASE rel = "ge" -> \A i \in Types : x[i] >= v[i] [] rel = "le" -> \A i \in Types : x[i] <= v[i]
                         [] rel = "gt" -> \A i \in Types : x[i] > v[i] [] rel = "lt" -> \A i \in Types : x[i] < v[i]
                         [] rel = "eq" -> \A i \in Types : x[i] = v[i] [] OTHER -> \E i \in Types : x[i] # v[i]


\* current truth value of a condition-notification
Holds(n) ==
  CASE n[1] = "flag"  -> flag[n[2]]
    [] n[1] = "nflag" -> ~flag[n[2]]
    [] n[1] = "done"  -> task[n[2]].done
    [] n[1] = "body"  -> sc[n[2]].bodydone
    [] n[1] = "cmp"   -> RelHolds(obj.pool[n[2]].level, n[6], n[3])
    [] OTHER -> FALSE

WaitersOf(sb, n) == SelectSeq(sb, LAMBDA y : y.n = n)
\* __awake_all__: schedule every waiter of n in subscription order
AwakeAll(sb, pd, n) ==
  <<SelectSeq(sb, LAMBDA y : y.n # n),
    pd \o [i \in 1..Len(WaitersOf(sb, n)) |-> Actv(WaitersOf(sb, n)[i].w, WaitersOf(sb, n)[i].sig)]>>

----------------------------------------------------------------------------
Init ==
  /\ now = 0
  /\ pending = [i \in 1..NRoots |-> Actv(i, NoSig)]
  /\ future = [t \in Times |-> <<>>]
  /\ act = [a \in Acts |-> [life |-> IF a <= NRoots THEN "new" ELSE "unborn", stack |-> <<>>,
                            ops |-> IF a <= NRoots THEN RootOps ELSE TaskOps, cur |-> NoCur,
                            iters |-> [c \in Chans |-> 0], tk |-> [i \in 1..4 |-> [on |-> FALSE, last |-> 0]]]]
  /\ run = <<>>
  /\ task = [a \in Acts |-> [scope |-> 0, vol |-> FALSE, res |-> NoSig, done |-> FALSE, ncan |-> 0, delay |-> 0, fin |-> "none", graced |-> FALSE]]
  /\ sc = [s \in Scopes |-> [owner |-> 0, kind |-> "none", open |-> FALSE, inter |-> FALSE,
                             children |-> <<>>, volatile |-> <<>>, failures |-> <<>>,
                             notif |-> NoSig, bodydone |-> FALSE]]
  /\ subs = <<>>
  /\ flag = [f \in Flags |-> FALSE]
  /\ lock = [l \in AllLocks |-> [owner |-> 0, depth |-> 0]]
  /\ obj = [q |-> [i \in Queues |-> [buf |-> <<>>, closed |-> FALSE, got |-> 0]],     \* got: last item handed out (ghost)
            ch |-> [i \in Chans |-> [closed |-> FALSE, bufs |-> <<>>]],
            pool |-> [p \in 1..MaxPools |-> [level |-> IF p <= NRes THEN Vec(ResInit, ResInitB) ELSE Zero, parent |-> 0, debit |-> Zero,
                                              owner |-> 0, open |-> FALSE]],
            lst |-> [p \in 1..MaxPools |-> <<>>]]
  /\ cnt = [act |-> NRoots, sc |-> 0, exc |-> 0, item |-> 0, cons |-> 0, pool |-> NRes]
  /\ fault = ""
  /\ ev = <<>>

IsTask(a) == a > NRoots

----------------------------------------------------------------------------
\* Loop._run_events / _run_coroutine
Deliver ==
  /\ Idle /\ pending # <<>> /\ fault = "" /\ Head(pending).tgt > 0
  /\ LET y == Head(pending) a == y.tgt IN
     /\ pending' = Tail(pending)
     /\ CASE act[a].life = "new" /\ y.sig = NoSig ->
               \* first activation: send(None)
               /\ act' = [act EXCEPT ![a].life = "live",
                                     ![a].stack = IF IsTask(a) THEN <<[k |-> "runner", ph |-> "start"]>>
                                                  ELSE <<[k |-> "user"]>>]
               /\ run' = <<[a |-> a, mode |-> "ret", x |-> NoSig]>>
               /\ fault' = fault
          [] act[a].life = "live" /\ y.sig # NoSig ->
               /\ act' = act
               /\ run' = <<[a |-> a, mode |-> "exc", x |-> y.sig]>>
               /\ fault' = fault
          [] OTHER ->
               \* throw() into a finished coroutine / send() into a started one
               /\ act' = act /\ run' = run
               /\ fault' = "resume_" \o act[a].life
     /\ ev' = <<>>
  /\ UNCHANGED <<now, future, task, sc, subs, flag, lock, cnt>>

Advance ==
  /\ Idle /\ pending = <<>> /\ fault = ""
  /\ \E t \in Times :
       /\ t > now /\ future[t] # <<>>
       /\ \A u \in Times : (u > now /\ u < t) => future[u] = <<>>
       /\ now' = t /\ pending' = future[t]
       /\ future' = [future EXCEPT ![t] = <<>>]
  /\ ev' = <<>>
  /\ UNCHANGED <<act, run, task, sc, subs, flag, lock, cnt, fault>>

Quiescent == Idle /\ pending = <<>> /\ \A t \in Times : t > now => future[t] = <<>>

----------------------------------------------------------------------------
\* helpers shared by several steps (all refer to the running activity)
A == Cur.a
Mode == Cur.mode
X == Cur.x
Running == run # <<>> /\ fault = ""
OwnWake(a) == Wk(a, Depth(a))

\* push a postpone frame on activity a (given act function ac) and hibernate
DoPostpone(ac, pd) ==
  /\ act' = Push(ac, A, [k |-> "postpone"])
  /\ pending' = Append(pd, Actv(A, Wk(A, Len(ac[A].stack) + 1)))
  /\ Hibernate

\* subscribe the running activity to notification n and hibernate
\* (Notification.__await__ : __subscription__ + Hibernate)
DoSubscribe(ac, sb, n) ==
  /\ act' = Push(ac, A, [k |-> "sub", n |-> n])
  /\ subs' = Append(sb, [n |-> n, w |-> A, sig |-> Wk(A, Len(ac[A].stack) + 1)])
  /\ Hibernate

\* Condition.__await__ on n, entered from a frame already pushed in ac:
\*   if self: postpone()      else: Notification.__await__
DoCondWait(ac, n) ==
  IF Holds(n)
  THEN DoPostpone(Push(ac, A, [k |-> "cwait", n |-> n]), pending) /\ subs' = subs
  ELSE DoSubscribe(Push(ac, A, [k |-> "cwait", n |-> n]), subs, n) /\ pending' = pending

\* Task.status
StatusOf(k) ==
  IF task[k].res = NoSig THEN (IF act[k].life = "new" THEN "created" ELSE "running")
  ELSE IF task[k].res = <<"ok">> THEN "success"
  ELSE IF task[k].res[1] \in {"tcancelled", "tclosed"} THEN "cancelled" ELSE "failed"

User(a) == Top(a).k \in {"user", "held"} \/ (Top(a).k \in {"scope", "borrow"} /\ Top(a).ph = "body")

----------------------------------------------------------------------------
\* WAIT FRAMES: postpone / suspend / sub
WakeOwn ==
  /\ Running /\ Mode = "exc" /\ X = OwnWake(A)
  /\ Top(A).k \in {"postpone", "suspend", "sub"}
  /\ act' = Drop(act, A)
  /\ SetRun("ret", NoSig)
  /\ ev' = <<>>
  /\ UNCHANGED <<now, pending, future, task, sc, subs, flag, lock, cnt, fault>>

\* any other exception at a wait frame: the `finally` revokes / unsubscribes
UnwindWait ==
  /\ Running /\ Mode = "exc" /\ X # OwnWake(A)
  /\ Top(A).k \in {"postpone", "suspend", "sub"}
  /\ act' = Drop(act, A)
  /\ pending' = Purge(pending, OwnWake(A))
  /\ future' = PurgeF(future, OwnWake(A))
  /\ subs' = SelectSeq(subs, LAMBDA y : y.sig # OwnWake(A))
  /\ ev' = <<>>
  /\ UNCHANGED <<now, run, task, sc, flag, lock, cnt, fault>>

\* Condition.__await__ loop:  while not self: Notification.__await__
CondLoop ==
  /\ Running /\ Top(A).k = "cwait"
  /\ LET n == Top(A).n
         \* the comparison instance of a tracked value dies with its await
         \* (a shared instance, n[4] = 0, is kept by the client and listens for good)
         gone == IF n[1] = "cmp" /\ n[4] # 0 THEN [obj EXCEPT !.lst[n[2]] = Without(@, n)] ELSE obj IN
     IF Mode = "exc"
     THEN /\ act' = Drop(act, A) /\ obj' = gone /\ UNCHANGED <<run, subs, pending>>
     ELSE IF Holds(n)
          THEN /\ act' = Drop(act, A) /\ obj' = gone /\ UNCHANGED <<run, subs, pending>>
          ELSE /\ DoSubscribe(act, subs, n) /\ pending' = pending /\ obj' = obj
  /\ ev' = <<>>
  /\ UNCHANGED <<now, future, task, sc, flag, lock, cnt, fault>>

\* `await task`:  after Done: return result or raise the stored exception
TaskAwaited ==
  /\ Running /\ Top(A).k = "tawait"
  /\ act' = Drop(act, A)
  /\ IF Mode = "exc" THEN run' = run
     ELSE IF task[Top(A).t].res = <<"ok">> THEN SetRun("ret", NoSig)
     ELSE SetRun("exc", task[Top(A).t].res)
  /\ ev' = <<>>
  /\ UNCHANGED <<now, pending, future, task, sc, subs, flag, lock, cnt, fault>>

----------------------------------------------------------------------------
\* PUPPET LEVEL: every op in progress ends with exactly one of r / x / u
OpDone ==
  /\ Running /\ Mode = "ret" /\ User(A) /\ act[A].cur.op # "none"
  /\ act' = [act EXCEPT ![A].cur = NoCur]
  /\ ev' = E(IF X = NoSig THEN [e |-> "r", a |-> A, t |-> now] @@ act[A].cur
                           ELSE [e |-> "r", a |-> A, t |-> now, v |-> X[2]] @@ act[A].cur)
  /\ SetRun("ret", NoSig)
  /\ UNCHANGED <<now, pending, future, task, sc, subs, flag, lock, cnt, fault>>

OpRaised ==
  /\ Running /\ Mode = "exc" /\ User(A) /\ act[A].cur.op # "none"
  /\ act' = [act EXCEPT ![A].cur = NoCur]
  /\ IF IsException(X)
     THEN /\ SetRun("ret", NoSig)
          /\ ev' = E([e |-> "x", a |-> A, t |-> now, exc |-> X] @@ act[A].cur)
     ELSE /\ run' = run
          /\ ev' = E([e |-> "u", a |-> A, t |-> now, exc |-> X] @@ act[A].cur)
  /\ UNCHANGED <<now, pending, future, task, sc, subs, flag, lock, cnt, fault>>

----------------------------------------------------------------------------
\* LOCK  (usim/_primitives/locks.py)
\* Lock.__release__: hand over to the oldest waiter (designated owner) or free
Release(lk, sb, pd, l) ==
  LET ws == WaitersOf(sb, NLock(l)) IN
  IF ws = <<>>
  THEN <<[lk EXCEPT ![l].owner = 0], sb, pd>>
  ELSE <<[lk EXCEPT ![l].owner = ws[1].w],
         SelectSeq(sb, LAMBDA y : y # ws[1]),
         Append(pd, Actv(ws[1].w, ws[1].sig))>>

\* control comes back to Lock.__aenter__ after `await self._notification`
LockEntered ==
  /\ Running /\ Top(A).k = "lenter"
  /\ LET l == Top(A).l IN
     IF Mode = "ret"
     THEN /\ act' = SetTop(act, A, IF l \in Locks THEN [k |-> "held", l |-> l] ELSE [k |-> "mheld", l |-> l, ph |-> "fresh"])
          /\ lock' = [lock EXCEPT ![l].depth = @ + 1]
          /\ UNCHANGED <<subs, pending>>
     ELSE \* except BaseException: pass the lock on if we are the designated owner
          /\ act' = Drop(act, A)
          /\ IF lock[l].owner = A
             THEN LET r == Release(lock, subs, pending, l) IN
                  lock' = r[1] /\ subs' = r[2] /\ pending' = r[3]
             ELSE UNCHANGED <<lock, subs, pending>>
  /\ ev' = <<>>
  /\ UNCHANGED <<now, future, run, task, sc, flag, cnt, fault>>

\* Lock.__aexit__ (used by leave and by exceptions passing through the block)
ExitLock(l) ==
  IF lock[l].depth = 1
  THEN LET r == Release([lock EXCEPT ![l].depth = 0], subs, pending, l) IN
       lock' = r[1] /\ subs' = r[2] /\ pending' = r[3]
  ELSE lock' = [lock EXCEPT ![l].depth = @ - 1] /\ UNCHANGED <<subs, pending>>

HeldExc ==
  /\ Running /\ Mode = "exc" /\ Top(A).k = "held" /\ act[A].cur.op = "none"
  /\ act' = Drop(act, A)
  /\ ExitLock(Top(A).l)
  /\ ev' = E([e |-> "u", a |-> A, op |-> "body", blk |-> "lock", id |-> Top(A).l, t |-> now, exc |-> X])
  /\ fault' = IF ~IsGenExit(X) /\ lock[Top(A).l].owner # A THEN "lock_exit_not_owner" ELSE fault
  /\ UNCHANGED <<now, future, run, task, sc, flag, cnt>>

----------------------------------------------------------------------------
\* TASK RUNNER (Task.payload_wrapper) and end of activities
ChildFinished(s, k, failed, x) ==
  [sc EXCEPT ![s].children = Without(@, k), ![s].volatile = Without(@, k),
             ![s].failures = IF failed THEN Append(@, x) ELSE @]

RunnerStart ==
  /\ Running /\ Mode = "ret" /\ Top(A).k = "runner" /\ Top(A).ph = "start"
  /\ IF task[A].res # NoSig
     THEN \* cancelled / closed before it started: discard the payload
          /\ act' = [act EXCEPT ![A].life = "done", ![A].stack = <<>>]
          /\ sc' = ChildFinished(task[A].scope, A, FALSE, NoSig)
          /\ run' = Pop(run)
          /\ UNCHANGED future
     ELSE IF task[A].delay > 0
     THEN /\ act' = Push(SetTop(act, A, [k |-> "runner", ph |-> "delayed"]), A, [k |-> "suspend"])
          /\ future' = [future EXCEPT ![now + task[A].delay] = Append(@, Actv(A, Wk(A, 2)))]
          /\ Hibernate /\ sc' = sc
     ELSE /\ act' = Push(SetTop(act, A, [k |-> "runner", ph |-> "run"]), A, [k |-> "user"])
          /\ UNCHANGED <<run, sc, future>>
  /\ ev' = <<>>
  /\ UNCHANGED <<now, pending, task, subs, flag, lock, cnt, fault>>

RunnerDelayed ==
  /\ Running /\ Mode = "ret" /\ Top(A).k = "runner" /\ Top(A).ph = "delayed"
  /\ act' = Push(SetTop(act, A, [k |-> "runner", ph |-> "run"]), A, [k |-> "user"])
  /\ ev' = <<>>
  /\ UNCHANGED <<now, pending, future, run, task, sc, subs, flag, lock, cnt, fault>>

\* the payload has ended (ret) or an exception reached the wrapper (exc)
RunnerEnd ==
  /\ Running /\ Top(A).k = "runner"
  /\ (Mode = "exc" \/ Top(A).ph = "run")
  /\ LET k == A  s == task[k].scope
         own == Mode = "exc" /\ X # NoSig /\ X[1] = "ct" /\ X[2] = k
         failed == Mode = "exc" /\ ~own /\ ~IsGenExit(X)
         res == IF Mode = "ret" THEN <<"ok">>
                ELSE IF own THEN TCan(k)
                ELSE IF IsGenExit(X) THEN task[k].res
                ELSE X
         pd1 == IF failed /\ sc[s].inter THEN Append(pending, Actv(sc[s].owner, Cs(s))) ELSE pending
         pd2 == PurgeCt(pd1, k)
         aw == AwakeAll(subs, pd2, NDone(k)) IN
     /\ task' = [task EXCEPT ![k].res = res, ![k].done = TRUE]
     /\ sc' = ChildFinished(s, k, failed, X)
     /\ subs' = aw[1] /\ pending' = aw[2]
     /\ future' = [t \in Times |-> PurgeCt(future[t], k)]
     /\ act' = [act EXCEPT ![k].life = "done", ![k].stack = <<>>]
     /\ run' = Pop(run)
     /\ fault' = IF Mode = "exc" /\ X # NoSig /\ X[1] = "ct" /\ X[2] # k THEN "foreign_cancel"
                 ELSE IF task[k].done THEN "set_done_twice" ELSE fault
  /\ ev' = <<>>
  /\ UNCHANGED <<now, flag, lock, cnt>>

How(x) == IF x = NoSig THEN "ok"
          ELSE IF x[1] = "ct" THEN "cancelled"
          ELSE IF IsGenExit(x) THEN "closed"
          ELSE IF IsException(x) THEN "failed" ELSE "signal"

\* the bottom user frame is left: by an exception (UserExc) or normally (Finish in UserOp)
\* A task may have a clean-up handler (`fin`) that reacts to being closed:
\*   "raise": raises its own exception from the handler
\*   "spawn": tries to spawn a sibling into its (closing) scope - must be refused
EndUser(x) ==
  LET fin == IF IsTask(A) /\ IsGenExit(x) THEN task[A].fin ELSE "none"
      endev == [e |-> "end", a |-> A, how |-> How(x), t |-> now, exc |-> x] IN
  IF IsTask(A)
  THEN /\ act' = [Drop(act, A) EXCEPT ![A].ops = 0]
       /\ CASE fin = "raise" ->
                 /\ cnt' = [cnt EXCEPT !.exc = @ + 1]
                 /\ SetRun("exc", Exc(cnt.exc + 1, "Key"))
                 /\ ev' = <<endev, [e |-> "b", a |-> A, t |-> now, op |-> "raise", cls |-> "Key", id |-> cnt.exc + 1],
                            [e |-> "end", a |-> A, how |-> "failed", t |-> now, exc |-> Exc(cnt.exc + 1, "Key")]>>
                 /\ fault' = fault
            [] fin = "spawn" ->
                 /\ ev' = <<endev, [e |-> "b", a |-> A, t |-> now, op |-> "do", s |-> task[A].scope, vol |-> FALSE,
                                    d |-> 0, k |-> 0, fin |-> "none"],
                            [e |-> "x", a |-> A, t |-> now, op |-> "do", exc |-> SClosed(task[A].scope)]>>
                 /\ fault' = IF sc[task[A].scope].inter THEN "spawn_while_closing_accepted" ELSE fault
                 /\ UNCHANGED <<run, cnt>>
            [] OTHER -> ev' = <<endev>> /\ UNCHANGED <<run, fault, cnt>>
  ELSE /\ ev' = <<endev>>
       /\ act' = [act EXCEPT ![A].life = "done", ![A].stack = <<>>, ![A].ops = 0]
       /\ run' = Pop(run)
       /\ cnt' = cnt
       /\ fault' = IF x = NoSig THEN fault
                   ELSE IF IsException(x) THEN "stopped:user" ELSE "stopped:internal"

\* a task with a graceful cancellation handler ("grace"): it catches its first CancelTask, shuts down for one
\* time unit and then re-raises it; a further cancel() during the shutdown is raised at that suspension point
Graceful1 == IsTask(A) /\ task[A].fin = "grace" /\ ~task[A].graced /\ X # NoSig /\ X[1] = "ct" /\ X[2] = A
             /\ now + 1 <= Horizon /\ Len(run) = 1
UserExc ==
  /\ Running /\ Mode = "exc" /\ Top(A).k = "user" /\ act[A].cur.op = "none"
  /\ IF Graceful1
     THEN /\ act' = Push(Push(act, A, [k |-> "grace", x |-> X]), A, [k |-> "suspend"])
          /\ future' = [future EXCEPT ![now + 1] = Append(@, Actv(A, Wk(A, Depth(A) + 2)))]
          /\ task' = [task EXCEPT ![A].graced = TRUE]
          /\ Hibernate
          /\ ev' = E([e |-> "g", a |-> A, t |-> now])
          /\ UNCHANGED <<cnt, fault>>
     ELSE EndUser(X) /\ UNCHANGED <<future, task>>
  /\ UNCHANGED <<now, pending, sc, subs, flag, lock>>

GraceStep ==
  /\ Running /\ Top(A).k = "grace"
  /\ act' = Drop(act, A)
  /\ IF Mode = "ret"
     THEN /\ SetRun("exc", Top(A).x)           \* shutdown finished: re-raise the cancellation
          /\ ev' = E([e |-> "r", a |-> A, op |-> "grace", t |-> now])
     ELSE /\ run' = run                        \* a further signal cut the shutdown short
          /\ ev' = E([e |-> "u", a |-> A, op |-> "grace", t |-> now, exc |-> X])
  /\ UNCHANGED <<now, pending, future, task, sc, subs, flag, lock, obj, cnt, fault>>

----------------------------------------------------------------------------
\* SCOPES (usim/_primitives/context.py)
\* Scope._disable_interrupts (+ InterruptScope: unsubscribe the notification)
DisableInterrupts(s, pd, fu, sb) ==
  <<Purge(Purge(pd, Cs(s)), Ci(s)),
    PurgeF(PurgeF(fu, Cs(s)), Ci(s)),
    SelectSeq(sb, LAMBDA y : y.sig # Ci(s))>>

\* graceful phase of __aexit__: control returned to the scope frame
\*   g1: the postponement of `await self._body_done.set()` is over
\*   gw: inside `for child in self._children[:]: await child.done`
Graceful ==
  /\ Running /\ Mode = "ret" /\ Top(A).k = "scope" /\ Top(A).ph \in {"g1", "gw"}
  /\ LET fr == Top(A) s == fr.s
         restart == fr.ph = "g1" \/ fr.todo = <<>>
         todo == IF restart THEN sc[s].children ELSE fr.todo IN
     IF restart /\ sc[s].children = <<>>
     THEN \* nothing (left) to wait for: _close_scope()
          LET d == DisableInterrupts(s, pending, future, subs) IN
          /\ act' = SetTop(act, A, [fr EXCEPT !.ph = "closing", !.todo = sc[s].children \o sc[s].volatile, !.x = NoSig])
          /\ sc' = [sc EXCEPT ![s].inter = FALSE]
          /\ pending' = d[1] /\ future' = d[2] /\ subs' = d[3]
          /\ run' = run
     ELSE \* await todo[1].done
          /\ DoCondWait(SetTop(act, A, [fr EXCEPT !.ph = "gw", !.todo = Tail(todo)]), NDone(Head(todo)))
          /\ UNCHANGED <<sc, future>>
  /\ ev' = <<>>
  /\ UNCHANGED <<now, task, flag, lock, cnt, fault>>

\* an exception / signal reaches the scope frame: abort path of __aexit__
Abort ==
  /\ Running /\ Mode = "exc" /\ Top(A).k = "scope" /\ Top(A).ph \in {"body", "g1", "gw"}
  /\ act[A].cur.op = "none" \/ Top(A).ph # "body"
  /\ LET fr == Top(A) s == fr.s
         d == DisableInterrupts(s, pending, future, subs)
         \* body raised: _body_done is set without postponing
         aw == IF fr.ph = "body" THEN AwakeAll(d[3], d[1], NBody(s)) ELSE <<d[3], d[1]>> IN
     /\ act' = SetTop(act, A, [fr EXCEPT !.ph = "closing", !.todo = sc[s].children \o sc[s].volatile, !.x = X])
     /\ sc' = [sc EXCEPT ![s].inter = FALSE, ![s].bodydone = TRUE]
     /\ pending' = aw[2] /\ future' = d[2] /\ subs' = aw[1]
     /\ SetRun("ret", NoSig)
  /\ ev' = <<>>
  /\ UNCHANGED <<now, task, flag, lock, cnt, fault>>

\* Task.__close__ of the next child
CloseNext ==
  /\ Running /\ Mode = "ret" /\ Top(A).k = "scope" /\ Top(A).ph = "closing" /\ Top(A).todo # <<>>
  /\ LET fr == Top(A) k == Head(fr.todo)
         ac1 == SetTop(act, A, [fr EXCEPT !.todo = Tail(@)]) IN
     /\ act' = ac1
     /\ IF task[k].res # NoSig
        THEN UNCHANGED <<task, subs, pending, run>>
        ELSE IF act[k].life = "new"
        THEN \* not started yet: finish it now, the runner cleans up on its first activation
             LET aw == AwakeAll(subs, pending, NDone(k)) IN
             /\ task' = [task EXCEPT ![k].res = TClo(k), ![k].done = TRUE]
             /\ subs' = aw[1] /\ pending' = aw[2] /\ run' = run
        ELSE \* suspended: coroutine.close() -> GeneratorExit unwinds it synchronously
             /\ task' = [task EXCEPT ![k].res = TClo(k)]
             /\ run' = Append(run, [a |-> k, mode |-> "exc", x |-> GenExit])
             /\ UNCHANGED <<subs, pending>>
  /\ ev' = <<>>
  /\ UNCHANGED <<now, future, sc, flag, lock, cnt, fault>>

IsPrivExc(x) == x # NoSig /\ x[1] = "exc" /\ Priv(x[3])
PrivOf(fs) == SelectSeq(fs, IsPrivExc)
ConcOf(fs) == SelectSeq(fs, LAMBDA f : ~(f[1] \in {"tcancelled", "tclosed"}))

\* Scope._propagate_exceptions: how the block ends
ScopeOutcome(s, x) ==
  LET fs == sc[s].failures
      own == x = NoSig \/ x = Cs(s) \/ x = Ci(s) IN
  IF x # NoSig /\ x[1] = "exc" /\ PrivExact(x[3]) THEN x
  ELSE IF PrivOf(fs) # <<>> THEN PrivOf(fs)[1]
  ELSE IF own THEN (IF ConcOf(fs) # <<>> THEN Conc(ConcOf(fs)) ELSE NoSig)
  ELSE x

Propagate ==
  /\ Running /\ Mode = "ret" /\ Top(A).k = "scope" /\ Top(A).ph = "closing" /\ Top(A).todo = <<>>
  /\ LET fr == Top(A) s == fr.s
         out == ScopeOutcome(s, fr.x)
         phase == IF act[A].cur.op = "leave" THEN "leave" ELSE "body" IN
     /\ sc' = [sc EXCEPT ![s].open = FALSE]
     /\ IF out = NoSig
        THEN /\ SetRun("ret", NoSig)
             /\ IF phase = "leave"
                THEN act' = Drop(act, A) /\ ev' = <<>>       \* OpDone reports r(leave)
                ELSE /\ act' = Drop(act, A)
                     /\ ev' = E([e |-> "r", a |-> A, op |-> "body", blk |-> "scope", id |-> s, t |-> now])
        ELSE /\ act' = [Drop(act, A) EXCEPT ![A].cur = NoCur]
             /\ IF IsException(out) /\ ~IsPrivExc(out) /\ fr.catch
                THEN /\ SetRun("ret", NoSig)       \* the puppet catches (non-privileged) Exception here
                     /\ ev' = E([e |-> "x", a |-> A, op |-> phase, blk |-> "scope", id |-> s, t |-> now, exc |-> out])
                ELSE /\ SetRun("exc", out)
                     /\ ev' = E([e |-> "u", a |-> A, op |-> phase, blk |-> "scope", id |-> s, t |-> now, exc |-> out])
  /\ UNCHANGED <<now, pending, future, task, subs, flag, lock, cnt, fault>>

----------------------------------------------------------------------------
\* CLIENT: the running activity is in user code and issues its next operation
B(opr) == [e |-> "b", a |-> A, t |-> now] @@ opr     \* op_begin event carrying the op record
Spend(ac) == [ac EXCEPT ![A].ops = @ - 1]
Busy(ac, opname) == [ac EXCEPT ![A].cur = [op |-> opname]]
BusyEnter(ac, l) == [ac EXCEPT ![A].cur = [op |-> "enter", l |-> l]]
BusyLeave(ac, blk, id) == [ac EXCEPT ![A].cur = [op |-> "leave", blk |-> blk, id |-> id]]
BlkOf(fr) == IF fr.k = "held" THEN "lock" ELSE "scope"
IdOf(fr) == IF fr.k = "held" THEN fr.l ELSE fr.s
In(o) == o \in Menu

\* leave the innermost block (explicit op, or implicit at the end of the program)
LeaveBlock(ac) ==
  LET fr == Top(A) IN
  IF fr.k = "held"
  THEN /\ act' = BusyLeave(Drop(ac, A), "lock", fr.l)
       /\ ExitLock(fr.l)
       /\ UNCHANGED <<run, sc, future>>
  ELSE \* scope: await self._body_done.set(); then wait for the children
       LET aw == AwakeAll(subs, pending, NBody(fr.s)) IN
       /\ sc' = [sc EXCEPT ![fr.s].bodydone = TRUE]
       /\ subs' = aw[1]
       /\ DoPostpone(BusyLeave(SetTop(ac, A, [fr EXCEPT !.ph = "g1"]), "scope", fr.s), aw[2])
       /\ UNCHANGED <<lock, future>>

OpenScope(ac, kind, notif, catch) ==
  LET s == cnt.sc + 1 IN
  /\ cnt' = [cnt EXCEPT !.sc = s]
  /\ sc' = [sc EXCEPT ![s] = [owner |-> A, kind |-> kind, open |-> TRUE, inter |-> TRUE,
                              children |-> <<>>, volatile |-> <<>>, failures |-> <<>>,
                              notif |-> notif, bodydone |-> FALSE]]
  /\ act' = Push(ac, A, [k |-> "scope", s |-> s, ph |-> "body", todo |-> <<>>, x |-> NoSig, catch |-> catch])

UserOp ==
  /\ Running /\ Mode = "ret" /\ User(A) /\ act[A].cur.op = "none"
  /\ \/ \* ---- end of the program
        /\ Top(A).k \in {"user", "held", "scope"}
        /\ IF Top(A).k = "user"
           THEN /\ EndUser(NoSig)
                /\ UNCHANGED <<pending, future, task, sc, subs, flag, lock>>
           ELSE /\ LeaveBlock([act EXCEPT ![A].ops = 0])
                /\ ev' = E(B([op |-> "leave", implicit |-> TRUE, blk |-> BlkOf(Top(A)), id |-> IdOf(Top(A))]))
                /\ UNCHANGED <<task, flag, cnt, fault>>
        /\ now' = now
     \/ /\ act[A].ops > 0
        /\ now' = now
        /\ LET ac == Spend(act) IN
           \/ /\ In("leave") /\ Top(A).k \in {"held", "scope"}
              /\ LeaveBlock(ac)
              /\ ev' = E(B([op |-> "leave", implicit |-> FALSE, blk |-> BlkOf(Top(A)), id |-> IdOf(Top(A))]))
              /\ UNCHANGED <<task, flag, cnt, fault>>
           \/ /\ In("instant")
              /\ DoPostpone(Busy(ac, "instant"), pending)
              /\ ev' = E(B([op |-> "instant"]))
              /\ UNCHANGED <<future, task, sc, subs, flag, lock, cnt, fault>>
           \/ /\ In("sleep")
              /\ \E d \in {1, 2} :
                   /\ now + d <= Horizon
                   /\ act' = Push(Busy(ac, "sleep"), A, [k |-> "suspend"])
                   /\ future' = [future EXCEPT ![now + d] = Append(@, Actv(A, Wk(A, Depth(A) + 1)))]
                   /\ ev' = E(B([op |-> "sleep", d |-> d]))
              /\ Hibernate
              /\ UNCHANGED <<pending, task, sc, subs, flag, lock, cnt, fault>>
           \/ /\ In("fset")
              /\ \E f \in Flags : \E v \in BOOLEAN :
                   LET n == IF v THEN NFlag(f) ELSE NNFlag(f)
                       aw == IF flag[f] # v THEN AwakeAll(subs, pending, n) ELSE <<subs, pending>> IN
                   /\ flag' = [flag EXCEPT ![f] = v]
                   /\ subs' = aw[1]
                   /\ DoPostpone(Busy(ac, "fset"), aw[2])
                   /\ ev' = E(B([op |-> "fset", f |-> f, v |-> v]))
              /\ UNCHANGED <<future, task, sc, lock, cnt, fault>>
           \/ /\ In("await_f")
              /\ \E f \in Flags : \E v \in BOOLEAN :
                   /\ DoCondWait(Busy(ac, "await_f"), IF v THEN NFlag(f) ELSE NNFlag(f))
                   /\ ev' = E(B([op |-> "await_f", f |-> f, v |-> v]))
              /\ UNCHANGED <<future, task, sc, flag, lock, cnt, fault>>
           \/ /\ In("enter")
              /\ \E l \in Locks :
                   /\ ev' = E(B([op |-> "enter", l |-> l]))
                   /\ IF lock[l].owner = 0 \/ lock[l].owner = A
                      THEN /\ lock' = [lock EXCEPT ![l].owner = A, ![l].depth = @ + 1]
                           /\ act' = Push(BusyEnter(ac, l), A, [k |-> "held", l |-> l])
                           /\ UNCHANGED <<run, subs>>
                      ELSE /\ DoSubscribe(Push(BusyEnter(ac, l), A, [k |-> "lenter", l |-> l]), subs, NLock(l))
                           /\ lock' = lock
              /\ UNCHANGED <<pending, future, task, sc, flag, cnt, fault>>
           \/ /\ In("avail")
              /\ \E l \in Locks :
                   ev' = E([e |-> "p", a |-> A, t |-> now, op |-> "avail", l |-> l,
                            v |-> (lock[l].owner = 0 \/ lock[l].owner = A)])
              /\ act' = ac
              /\ UNCHANGED <<pending, future, run, task, sc, subs, flag, lock, cnt, fault>>
           \/ /\ In("status")
              /\ \E k \in (NRoots + 1)..cnt.act :
                   ev' = E([e |-> "p", a |-> A, t |-> now, op |-> "status", k |-> k, v |-> StatusOf(k)])
              /\ act' = ac
              /\ UNCHANGED <<pending, future, run, task, sc, subs, flag, lock, cnt, fault>>
           \/ /\ In("open") /\ cnt.sc < MaxScopes
              /\ \E catch \in BOOLEAN :
                   /\ (~catch => In("nocatch"))
                   /\ OpenScope(ac, "scope", NoSig, catch)
                   /\ ev' = <<B([op |-> "open", kind |-> "scope", s |-> cnt.sc + 1, catch |-> catch]),
                              [e |-> "r", a |-> A, op |-> "open", t |-> now]>>
              /\ UNCHANGED <<pending, future, run, task, subs, flag, lock, fault>>
           \/ /\ In("until_d") /\ cnt.sc < MaxScopes
              /\ \E d \in {1, 2} :
                   /\ now + d <= Horizon
                   /\ OpenScope(ac, "until", <<"delay", d>>, TRUE)
                   /\ future' = [future EXCEPT ![now + d] = Append(@, Actv(A, Ci(cnt.sc + 1)))]
                   /\ ev' = <<B([op |-> "open", kind |-> "until_d", d |-> d, s |-> cnt.sc + 1, catch |-> TRUE]),
                              [e |-> "r", a |-> A, op |-> "open", t |-> now]>>
              /\ UNCHANGED <<pending, run, task, subs, flag, lock, fault>>
           \/ /\ In("until_f") /\ cnt.sc < MaxScopes
              /\ \E f \in Flags :
                   /\ OpenScope(ac, "until", NFlag(f), TRUE)
                   /\ IF flag[f]
                      THEN /\ pending' = Append(pending, Actv(A, Ci(cnt.sc + 1))) /\ subs' = subs
                      ELSE /\ subs' = Append(subs, [n |-> NFlag(f), w |-> A, sig |-> Ci(cnt.sc + 1)])
                           /\ pending' = pending
                   /\ ev' = <<B([op |-> "open", kind |-> "until_f", f |-> f, s |-> cnt.sc + 1, catch |-> TRUE]),
                              [e |-> "r", a |-> A, op |-> "open", t |-> now]>>
              /\ UNCHANGED <<future, run, task, flag, lock, fault>>
           \/ /\ In("do")
              /\ \E s \in 1..cnt.sc : \E vol \in BOOLEAN : \E d \in {0, 1} : \E fin \in {"none", "raise", "spawn", "grace"} :
                   /\ (d = 0 \/ (In("do_after") /\ now + d <= Horizon))
                   /\ (fin \in {"raise", "spawn"} => In("do_fin"))
                   /\ (fin = "grace" => In("do_grace"))
                   /\ (vol => In("do_volatile"))
                   /\ IF ~sc[s].inter
                      THEN \* ScopeClosed: the payload is closed and never runs
                           /\ act' = Busy(ac, "do")
                           /\ SetRun("exc", SClosed(s))
                           /\ ev' = E(B([op |-> "do", s |-> s, vol |-> vol, d |-> d, k |-> 0, fin |-> fin]))
                           /\ UNCHANGED <<pending, task, sc, cnt>>
                      ELSE LET k == cnt.act + 1 IN
                           /\ k <= MaxActs
                           /\ cnt' = [cnt EXCEPT !.act = k]
                           /\ act' = [Busy(ac, "do") EXCEPT ![k].life = "new"]
                           /\ task' = [task EXCEPT ![k] = [scope |-> s, vol |-> vol, res |-> NoSig,
                                                           done |-> FALSE, ncan |-> 0, delay |-> d, fin |-> fin, graced |-> FALSE]]
                           /\ pending' = Append(pending, Actv(k, NoSig))
                           /\ sc' = IF vol THEN [sc EXCEPT ![s].volatile = Append(@, k)]
                                    ELSE [sc EXCEPT ![s].children = Append(@, k)]
                           /\ ev' = E(B([op |-> "do", s |-> s, vol |-> vol, d |-> d, k |-> k, fin |-> fin]))
                           /\ run' = run
              /\ UNCHANGED <<future, subs, flag, lock, fault>>
           \/ /\ In("cancel")
              /\ \E k \in (NRoots + 1)..cnt.act :
                   /\ ev' = E(B([op |-> "cancel", k |-> k]))
                   /\ IF task[k].res # NoSig \/ act[k].life = "done"
                      THEN UNCHANGED <<task, subs, pending>>
                      ELSE IF act[k].life = "new"
                      THEN LET aw == AwakeAll(subs, pending, NDone(k)) IN
                           /\ task' = [task EXCEPT ![k].res = TCan(k), ![k].done = TRUE]
                           /\ subs' = aw[1] /\ pending' = aw[2]
                      ELSE /\ task' = [task EXCEPT ![k].ncan = @ + 1]
                           /\ pending' = Append(pending, Actv(k, Ct(k, task[k].ncan + 1)))
                           /\ subs' = subs
              /\ act' = Busy(ac, "cancel")
              /\ UNCHANGED <<future, run, sc, flag, lock, cnt, fault>>
           \/ /\ In("await_t")
              /\ \E k \in (NRoots + 1)..cnt.act :
                   /\ k # A
                   /\ DoCondWait(Push([ac EXCEPT ![A].cur = [op |-> "await_t", k |-> k]], A, [k |-> "tawait", t |-> k]), NDone(k))
                   /\ ev' = E(B([op |-> "await_t", k |-> k]))
              /\ UNCHANGED <<future, task, sc, flag, lock, cnt, fault>>
           \/ /\ In("raise")
              /\ \E c \in Classes :
                   /\ (Priv(c) => In("raise_priv"))
                   /\ cnt' = [cnt EXCEPT !.exc = @ + 1]
                   \* (the puppets raise the subclass where it is purely a child failure: in a task, outside any
                   \* scope block of its own)
                   /\ SetRun("exc", Exc(cnt.exc + 1, IF c = "Assert" /\ IsTask(A) /\ ~\E i \in 1..Len(Stack(A)) : Stack(A)[i].k = "scope"
                                                    THEN "AssertSub" ELSE c))
                   /\ ev' = E(B([op |-> "raise", cls |-> c, id |-> cnt.exc + 1]))
              /\ act' = ac
              /\ UNCHANGED <<pending, future, task, sc, subs, flag, lock, fault>>

----------------------------------------------------------------------------
\* STREAMS (usim/_basics/streams.py): Queue and Channel
\* A queue receive is  `async with self._read_mutex:` around the wait; frames:
\*    qget(q)  >  [lenter(m) > sub]  |  mheld(m, ph) > [postpone | sub]
SetQ(q, f, v) == [obj EXCEPT !.q[q][f] = v]
AwakeNext(sb, pd, n) ==
  LET ws == WaitersOf(sb, n) IN
  IF ws = <<>> THEN <<sb, pd>>
  ELSE <<SelectSeq(sb, LAMBDA y : y # ws[1]), Append(pd, Actv(ws[1].w, ws[1].sig))>>

\* body of Queue._await_message once the read mutex is held (ph = "fresh"),
\* after the postponement (ph = "post") and after the notification (ph = "wait")
QGetStep ==
  /\ Running /\ Top(A).k \in {"mheld", "qget"}
  /\ IF Top(A).k = "qget"
     THEN \* the mutex block has been left: return the item / propagate the exception
          /\ act' = Drop(act, A)
          /\ UNCHANGED <<run, lock, subs, pending, obj, fault>>
     ELSE LET fr == Top(A) m == fr.l q == m - NLocks IN
          IF Mode = "exc"
          THEN \* Lock.__aexit__ on the way out
               /\ act' = Drop(act, A) /\ ExitLock(m) /\ UNCHANGED <<run, obj, fault>>
          ELSE IF fr.ph = "fresh"
          THEN IF obj.q[q].buf # <<>>
               THEN /\ DoPostpone(SetTop(act, A, [fr EXCEPT !.ph = "post"]), pending)
                    /\ UNCHANGED <<lock, subs, obj, fault>>
               ELSE IF obj.q[q].closed
               THEN /\ SetRun("exc", StreamClosed("q", q)) /\ UNCHANGED <<act, lock, subs, pending, obj, fault>>
               ELSE /\ DoSubscribe(SetTop(act, A, [fr EXCEPT !.ph = "wait"]), subs, NQ(q))
                    /\ UNCHANGED <<lock, pending, obj, fault>>
          ELSE IF obj.q[q].buf # <<>>
          THEN \* popleft, leave the mutex, return the item
               /\ obj' = [obj EXCEPT !.q[q].buf = Tail(@), !.q[q].got = Head(obj.q[q].buf)]
               /\ act' = Drop(act, A)
               /\ ExitLock(m)
               /\ SetRun("ret", <<"val", Head(obj.q[q].buf)>>)
               /\ fault' = fault
          ELSE /\ SetRun("exc", StreamClosed("q", q))
               /\ fault' = IF obj.q[q].closed THEN fault ELSE "queue_wake_without_item"
               /\ UNCHANGED <<act, lock, subs, pending, obj>>
  /\ ev' = <<>>
  /\ UNCHANGED <<now, future, task, sc, flag, cnt>>

\* Channel: consumer buffers are registered in `bufs` (registration order)
BufOf(c, cid) == LET i == CHOOSE j \in 1..Len(obj.ch[c].bufs) : obj.ch[c].bufs[j].cid = cid IN obj.ch[c].bufs[i]
DelBuf(o, c, cid) == [o EXCEPT !.ch[c].bufs = SelectSeq(@, LAMBDA b : b.cid # cid)]
SetBuf(o, c, cid, items) == [o EXCEPT !.ch[c].bufs = [j \in 1..Len(@) |-> IF @[j].cid = cid THEN [cid |-> cid, items |-> items] ELSE @[j]]]

\* frames  cget(c, cid) > sub      (await channel)
\*         cnext(c, cid) > sub     (one step of `async for` over the channel; the iterator lives in act[a].iters)
ChanStep ==
  /\ Running /\ Top(A).k \in {"cget", "cnext"}
  /\ LET fr == Top(A) c == fr.c cid == fr.cid IN
     IF fr.k = "cget"
     THEN \* finally: del self._consumer_buffers[sentinel]
          /\ obj' = DelBuf(obj, c, cid)
          /\ act' = Drop(act, A)
          /\ IF Mode = "exc" THEN UNCHANGED <<run, fault>>
             ELSE IF BufOf(c, cid).items # <<>> THEN SetRun("ret", <<"val", BufOf(c, cid).items[1]>>) /\ fault' = fault
             ELSE /\ SetRun("exc", StreamClosed("ch", c))
                  /\ fault' = IF obj.ch[c].closed THEN fault ELSE "channel_wake_without_item"
          /\ UNCHANGED <<subs, pending>>
     ELSE IF Mode = "exc"
     THEN \* the generator is finalised: finally: del buffer
          /\ obj' = DelBuf(obj, c, cid)
          /\ act' = [Drop(act, A) EXCEPT ![A].iters = [@ EXCEPT ![c] = 0]]
          /\ UNCHANGED <<run, fault, subs, pending>>
     ELSE IF BufOf(c, cid).items # <<>>
     THEN /\ obj' = SetBuf(obj, c, cid, Tail(BufOf(c, cid).items))
          /\ act' = Drop(act, A)
          /\ SetRun("ret", <<"val", Head(BufOf(c, cid).items)>>)
          /\ UNCHANGED <<fault, subs, pending>>
     ELSE IF obj.ch[c].closed
     THEN \* break: the generator ends, finally: del buffer
          /\ obj' = DelBuf(obj, c, cid)
          /\ act' = [Drop(act, A) EXCEPT ![A].iters = [@ EXCEPT ![c] = 0]]
          /\ SetRun("exc", StopIter)
          /\ UNCHANGED <<fault, subs, pending>>
     ELSE /\ DoSubscribe(act, subs, NCh(c)) /\ UNCHANGED <<obj, fault, pending>>
  /\ ev' = <<>>
  /\ UNCHANGED <<now, future, task, sc, flag, lock, cnt>>

StreamOp ==
  /\ Running /\ Mode = "ret" /\ User(A) /\ act[A].cur.op = "none" /\ act[A].ops > 0
  /\ LET ac == Spend(act) IN
     \/ /\ In("put")
        /\ \E q \in Queues :
             IF obj.q[q].closed
             THEN /\ act' = Busy(ac, "put") /\ SetRun("exc", StreamClosed("q", q))
                  /\ ev' = E(B([op |-> "put", q |-> q, v |-> 0]))
                  /\ UNCHANGED <<pending, subs, obj, cnt>>
             ELSE LET v == cnt.item + 1
                      aw == AwakeNext(subs, pending, NQ(q)) IN
                  /\ cnt' = [cnt EXCEPT !.item = v]
                  /\ obj' = SetQ(q, "buf", Append(obj.q[q].buf, v))
                  /\ subs' = aw[1]
                  /\ DoPostpone(Busy(ac, "put"), aw[2])
                  /\ ev' = E(B([op |-> "put", q |-> q, v |-> v]))
        /\ UNCHANGED <<lock>>
     \/ /\ In("qclose")
        /\ \E q \in Queues :
             LET aw == IF obj.q[q].closed THEN <<subs, pending>> ELSE AwakeAll(subs, pending, NQ(q)) IN
             /\ obj' = SetQ(q, "closed", TRUE)
             /\ subs' = aw[1]
             /\ DoPostpone(Busy(ac, "qclose"), aw[2])
             /\ ev' = E(B([op |-> "qclose", q |-> q]))
        /\ UNCHANGED <<lock, cnt>>
     \/ /\ In("get")
        /\ \E q \in Queues :
             LET m == Mutex(q)
                 ac1 == Push([ac EXCEPT ![A].cur = [op |-> "get", q |-> q]], A, [k |-> "qget", q |-> q]) IN
             /\ ev' = E(B([op |-> "get", q |-> q]))
             /\ IF lock[m].owner = 0 \/ lock[m].owner = A
                THEN /\ lock' = [lock EXCEPT ![m].owner = A, ![m].depth = @ + 1]
                     /\ act' = Push(ac1, A, [k |-> "mheld", l |-> m, ph |-> "fresh"])
                     /\ UNCHANGED <<run, subs>>
                ELSE /\ DoSubscribe(Push(ac1, A, [k |-> "lenter", l |-> m]), subs, NLock(m))
                     /\ lock' = lock
        /\ UNCHANGED <<pending, obj, cnt>>
     \/ /\ In("cput")
        /\ \E c \in Chans :
             IF obj.ch[c].closed
             THEN /\ act' = Busy(ac, "cput") /\ SetRun("exc", StreamClosed("ch", c))
                  /\ ev' = E(B([op |-> "cput", c |-> c, v |-> 0]))
                  /\ UNCHANGED <<pending, subs, obj, cnt>>
             ELSE LET v == cnt.item + 1
                      aw == AwakeAll(subs, pending, NCh(c)) IN
                  /\ cnt' = [cnt EXCEPT !.item = v]
                  /\ obj' = [obj EXCEPT !.ch[c].bufs = [j \in 1..Len(@) |-> [@[j] EXCEPT !.items = Append(@, v)]]]
                  /\ subs' = aw[1]
                  /\ DoPostpone(Busy(ac, "cput"), aw[2])
                  /\ ev' = E(B([op |-> "cput", c |-> c, v |-> v]))
        /\ UNCHANGED <<lock>>
     \/ /\ In("cclose")
        /\ \E c \in Chans :
             LET aw == IF obj.ch[c].closed THEN <<subs, pending>> ELSE AwakeAll(subs, pending, NCh(c)) IN
             /\ obj' = [obj EXCEPT !.ch[c].closed = TRUE]
             /\ subs' = aw[1]
             /\ DoPostpone(Busy(ac, "cclose"), aw[2])
             /\ ev' = E(B([op |-> "cclose", c |-> c]))
        /\ UNCHANGED <<lock, cnt>>
     \/ /\ In("cget")
        /\ \E c \in Chans :
             /\ ev' = E(B([op |-> "cget", c |-> c]))
             /\ IF obj.ch[c].closed
                THEN /\ act' = [ac EXCEPT ![A].cur = [op |-> "cget", c |-> c]] /\ SetRun("exc", StreamClosed("ch", c))
                     /\ UNCHANGED <<subs, obj, cnt>>
                ELSE LET cid == cnt.cons + 1 IN
                     /\ cnt' = [cnt EXCEPT !.cons = cid]
                     /\ obj' = [obj EXCEPT !.ch[c].bufs = Append(@, [cid |-> cid, items |-> <<>>])]
                     /\ DoSubscribe(Push([ac EXCEPT ![A].cur = [op |-> "cget", c |-> c]], A,
                                         [k |-> "cget", c |-> c, cid |-> cid]), subs, NCh(c))
        /\ UNCHANGED <<pending, lock>>
     \/ /\ In("cnext")
        /\ \E c \in Chans :
             \* one step of `async for` over the channel; the first step subscribes
             LET first == act[A].iters[c] = 0
                 cid == IF first THEN cnt.cons + 1 ELSE act[A].iters[c]
                 ac1 == [ac EXCEPT ![A].cur = [op |-> "cnext", c |-> c], ![A].iters = [@ EXCEPT ![c] = cid]] IN
             /\ ev' = E(B([op |-> "cnext", c |-> c]))
             /\ cnt' = IF first THEN [cnt EXCEPT !.cons = cid] ELSE cnt
             /\ obj' = IF first THEN [obj EXCEPT !.ch[c].bufs = Append(@, [cid |-> cid, items |-> <<>>])] ELSE obj
             /\ act' = Push(ac1, A, [k |-> "cnext", c |-> c, cid |-> cid])
             /\ UNCHANGED <<run, subs>>
        /\ UNCHANGED <<pending, lock>>
     \/ /\ In("cstop")
        /\ \E c \in Chans :
             \* the consumer drops its iterator (break): the generator is finalised
             /\ act[A].iters[c] # 0
             /\ obj' = DelBuf(obj, c, act[A].iters[c])
             /\ act' = [ac EXCEPT ![A].iters = [@ EXCEPT ![c] = 0]]
             /\ ev' = E([e |-> "p", a |-> A, t |-> now, op |-> "cstop", c |-> c])
        /\ UNCHANGED <<pending, run, subs, lock, cnt>>
  /\ UNCHANGED <<now, future, task, sc, flag, fault>>

----------------------------------------------------------------------------
\* CONDITIONS AND TIME (usim/_primitives/condition.py, timing.py)
\* Expressions:  <<"flag",f>> <<"nflag",f>> <<"done",k>> <<"ndone",k>>
\*               <<"ge",t>> (time >= t)  <<"lt",t>> (time < t)  <<"eq",t>> (time == t)
\*               <<"inst">> <<"etern">>   <<"all", <<c1,..>>>>  <<"any", <<c1,..>>>>
\* named sets of connective expressions (TLC cfg files cannot express nested tuples)
FL(f) == <<"flag", f>>
NF(f) == <<"nflag", f>>
CondTable == [
  none   |-> {},
  flat   |-> {<<"all", <<FL(1), FL(2)>>>>, <<"any", <<FL(1), FL(2)>>>>, <<"all", <<FL(1), NF(2)>>>>},
  timed  |-> {<<"any", <<FL(1), <<"ge", 1>>>>>>, <<"all", <<FL(1), <<"eq", 1>>>>>>, <<"any", <<NF(1), <<"eq", 1>>>>>>,
              <<"all", <<FL(1), <<"lt", 2>>>>>>},
  nested |-> {<<"any", <<<<"all", <<FL(1), FL(2)>>>>, <<"ge", 2>>>>>>, <<"all", <<<<"any", <<FL(1), FL(2)>>>>, NF(1)>>>>},
  past   |-> {<<"all", <<FL(1), <<"eq", 1>>>>>>, <<"any", <<FL(1), <<"eq", 0>>>>>>, <<"any", <<FL(1), <<"ge", 0>>>>>>}
]
Conds == CondTable[CondSel]

RECURSIVE Eval(_)
Eval(c) ==
  CASE c[1] = "flag"  -> flag[c[2]]
    [] c[1] = "nflag" -> ~flag[c[2]]
    [] c[1] = "done"  -> task[c[2]].done
    [] c[1] = "ndone" -> ~task[c[2]].done
    [] c[1] = "ge"    -> now >= c[2]
    [] c[1] = "lt"    -> now < c[2]
    [] c[1] = "eq"    -> now = c[2]
    [] c[1] = "inst"  -> TRUE
    [] c[1] = "etern" -> FALSE
    [] c[1] = "all"   -> \A i \in 1..Len(c[2]) : Eval(c[2][i])
    [] c[1] = "any"   -> \E i \in 1..Len(c[2]) : Eval(c[2][i])
    [] OTHER -> FALSE

Trig(n) == <<"trig", n>>                 \* After._async_trigger of the After instance behind notification n
Wk4(a, d, i) == <<"wk", a, d, i>>        \* wake-up of the i-th subscription of a connective awaited at depth d
\* direct children of a connective, in order.  NAMED DEVIATION "nested_connective_parked": a child that is
\* itself a connective is subscribed through Condition.__subscribe__, i.e. the waiter is parked in the
\* child's own waiting list, which nothing ever triggers (known finding KF-C08-nested; see DESIGN.md)
Leaves(c) == c[2]

\* `await <time atom>` and `await eternity`
\*   true now -> postpone;  will become true at date t -> wait for the After trigger;  else hibernate forever
TimeWait(ac, c) ==
  IF Eval(c) THEN DoPostpone(ac, pending) /\ UNCHANGED <<subs, future>>
  ELSE IF c[1] \in {"ge", "eq"} /\ now < c[2]
  THEN LET n == <<"aft", A, Len(ac[A].stack) + 1>> IN
       /\ DoSubscribe(ac, subs, n)
       /\ future' = [future EXCEPT ![c[2]] = Append(@, Actv(0, Trig(n)))]
       /\ pending' = pending
  ELSE /\ act' = Push(ac, A, [k |-> "hib"]) /\ Hibernate /\ UNCHANGED <<subs, future, pending>>

\* the anonymous activity that triggers an After condition at its date
DeliverTrigger ==
  /\ Idle /\ pending # <<>> /\ fault = "" /\ Head(pending).tgt = 0 /\ Head(pending).sig[1] = "trig"
  /\ LET aw == AwakeAll(subs, Tail(pending), Head(pending).sig[2]) IN
     subs' = aw[1] /\ pending' = aw[2]
  /\ ev' = <<>>
  /\ UNCHANGED <<now, future, act, run, task, sc, flag, lock, obj, cnt, fault>>

\* an exception reaches a bare hibernation (no wake-up of its own exists)
HibExc ==
  /\ Running /\ Mode = "exc" /\ Top(A).k = "hib"
  /\ act' = Drop(act, A) /\ ev' = <<>>
  /\ UNCHANGED <<now, pending, future, run, task, sc, subs, flag, lock, obj, cnt, fault>>

\* Connective.__await_children__ :  frame conn(c, helpers)
OwnConn(x) == x # NoSig /\ x[1] = "wk" /\ Len(x) = 4 /\ x[2] = A /\ x[3] = Depth(A)
ConnSigs(sb) == SelectSeq(sb, LAMBDA y : ~(y.w = A /\ Len(y.sig) = 4 /\ y.sig[1] = "wk" /\ y.sig[3] = Depth(A)))
ConnPurge(q) == SelectSeq(q, LAMBDA y : ~(y.tgt = A /\ Len(y.sig) = 4 /\ y.sig[1] = "wk" /\ y.sig[3] = Depth(A)))
ConnStep ==
  /\ Running /\ Top(A).k = "conn"
  /\ LET fr == Top(A) c == fr.c d == Depth(A) lv == Leaves(c) IN
     IF Mode = "exc"
     THEN \* the ExitStack unsubscribes every child
          /\ subs' = ConnSigs(subs)
          /\ pending' = ConnPurge(pending)
          /\ future' = [t \in Times |-> ConnPurge(future[t])]
          /\ IF OwnConn(X) THEN SetRun("ret", NoSig) /\ act' = act
             ELSE act' = Drop(act, A) /\ run' = run
     ELSE IF Eval(c)
     THEN /\ act' = Drop(act, A) /\ UNCHANGED <<run, subs, pending, future>>
     ELSE \* subscribe to every leaf that is not true yet, then hibernate
          LET idx == {i \in 1..Len(lv) : ~Eval(lv[i])}
              Sub(i) == IF lv[i][1] \in {"flag", "nflag", "done", "ndone"} THEN <<[n |-> lv[i], w |-> A, sig |-> Wk4(A, d, i)]>>
                        ELSE IF lv[i][1] \in {"ge", "eq"} /\ now < lv[i][2]
                        THEN <<[n |-> <<"aftc", A, d, i>>, w |-> A, sig |-> Wk4(A, d, i)]>>
                        ELSE <<>>
              RECURSIVE allsubs(_)
              allsubs(i) == IF i > Len(lv) THEN <<>> ELSE (IF i \in idx THEN Sub(i) ELSE <<>>) \o allsubs(i + 1)
              newtrig == {i \in idx : lv[i][1] \in {"ge", "eq"} /\ now < lv[i][2] /\ i \notin fr.trig} IN
          /\ subs' = subs \o allsubs(1)
          /\ future' = [t \in Times |->
                         future[t] \o [j \in 1..Cardinality({i \in newtrig : lv[i][2] = t}) |->
                                        Actv(0, Trig(<<"aftc", A, d,
                                             CHOOSE i \in newtrig : lv[i][2] = t /\ Cardinality({i2 \in newtrig : lv[i2][2] = t /\ i2 < i}) = j - 1>>))]]
          /\ act' = SetTop(act, A, [fr EXCEPT !.trig = @ \cup newtrig])
          /\ Hibernate /\ pending' = pending
  /\ ev' = <<>>
  /\ UNCHANGED <<now, task, sc, flag, lock, obj, cnt, fault>>

CondOp ==
  /\ Running /\ Mode = "ret" /\ User(A) /\ act[A].cur.op = "none" /\ act[A].ops > 0
  /\ LET ac == Spend(act) IN
     \/ /\ In("await_time")
        /\ \E c \in {<<"ge", t>> : t \in 0..Horizon} \cup {<<"eq", t>> : t \in 0..Horizon}
                    \cup {<<"lt", t>> : t \in 0..Horizon} \cup {<<"etern">>} :
             /\ TimeWait([ac EXCEPT ![A].cur = [op |-> "await_c", c |-> c]], c)
             /\ ev' = E(B([op |-> "await_c", c |-> c]))
        /\ UNCHANGED <<sc, cnt>>
     \/ /\ In("await_conn")
        /\ \E c \in Conds :
             /\ DoPostpone(Push([ac EXCEPT ![A].cur = [op |-> "await_c", c |-> c]], A,
                                [k |-> "conn", c |-> c, trig |-> {}]), pending)
             /\ ev' = E(B([op |-> "await_c", c |-> c]))
        /\ UNCHANGED <<subs, future, sc, cnt>>
     \/ /\ In("await_s")
        /\ \E s \in 1..cnt.sc :
             \* `await scope`: resumes once the body of the scope is done (Scope._body_done)
             /\ DoCondWait([ac EXCEPT ![A].cur = [op |-> "await_s", s |-> s]], NBody(s))
             /\ ev' = E(B([op |-> "await_s", s |-> s]))
        /\ UNCHANGED <<future, sc, cnt>>
     \/ /\ In("probe_c")
        /\ \E c \in Conds :
             \* bool(c) and bool(~c) right now (conditions containing `time == t` cannot be inverted)
             /\ ev' = E([e |-> "p", a |-> A, t |-> now, op |-> "probe_c", c |-> c, v |-> Eval(c), nv |-> ~Eval(c)])
             /\ act' = ac
        /\ UNCHANGED <<pending, future, run, subs, sc, cnt>>
     \/ /\ In("until_time") /\ cnt.sc < MaxScopes
        /\ \E c \in {<<"ge", t>> : t \in 0..Horizon} \cup {<<"eq", t>> : t \in 0..Horizon} :
             LET s == cnt.sc + 1  n == <<"afts", s>> IN
             /\ OpenScope(ac, "until", c, TRUE)
             /\ IF Eval(c) THEN pending' = Append(pending, Actv(A, Ci(s))) /\ UNCHANGED <<subs, future>>
                ELSE IF now < c[2]
                THEN /\ subs' = Append(subs, [n |-> n, w |-> A, sig |-> Ci(s)])
                     /\ future' = [future EXCEPT ![c[2]] = Append(@, Actv(0, Trig(n)))]
                     /\ pending' = pending
                ELSE UNCHANGED <<subs, future, pending>>        \* a passed moment never fires
             /\ ev' = <<B([op |-> "open", kind |-> "until_c", c |-> c, s |-> s, catch |-> TRUE]),
                        [e |-> "r", a |-> A, op |-> "open", t |-> now]>>
        /\ run' = run
     \/ /\ In("until_conn") /\ cnt.sc < MaxScopes
        /\ \E c \in Conds :
             \* `async with until(a & b)` / `until(a | b)`.  NAMED DEVIATION "connective_never_triggers" (known finding
             \* KF-C07-until-connective): InterruptScope subscribes through Condition.__subscribe__, which interrupts at
             \* once if the connective holds on entry and otherwise parks the interrupt in the connective's own waiting
             \* list - which nothing ever triggers (a connective only watches its children while it is AWAITED)
             LET s == cnt.sc + 1 IN
             /\ OpenScope(ac, "until", c, TRUE)
             /\ IF Eval(c) THEN pending' = Append(pending, Actv(A, Ci(s))) /\ subs' = subs
                ELSE subs' = Append(subs, [n |-> <<"parked", s>>, w |-> A, sig |-> Ci(s)]) /\ pending' = pending
             /\ ev' = <<B([op |-> "open", kind |-> "until_c", c |-> c, s |-> s, catch |-> TRUE]),
                        [e |-> "r", a |-> A, op |-> "open", t |-> now]>>
        /\ run' = run /\ future' = future
  /\ UNCHANGED <<now, task, flag, lock, obj, fault>>

----------------------------------------------------------------------------
\* RESOURCES (usim/_basics/resource.py, tracked.py)
\* obj.pool[p] = [level, parent, debit]: pools 1..NRes are the supplies, higher ids are the shares
\* (BorrowedResources) opened by borrow blocks; obj.lst[p] = live comparison instances (`available >= amt`)
\* listening to pool p's Tracked value, in registration order.
\* a comparison instance of a tracked value (`tracked <rel> v`), private to the await that created it
CmpR(p, amt, a, d, rel) == <<"cmp", p, amt, a, d, rel>>
Cmp(p, amt, a, d) == CmpR(p, amt, a, d, "ge")
CmpHolds(o, n) == RelHolds(o.pool[n[2]].level, n[6], n[3])
\* Tracked.set: store the value, then every listener whose test is true triggers its waiters
RECURSIVE FireFrom(_, _, _, _)
FireFrom(o, ls, sb, pd) ==
  IF ls = <<>> THEN <<sb, pd>>
  ELSE LET aw == IF CmpHolds(o, Head(ls)) THEN AwakeAll(sb, pd, Head(ls)) ELSE <<sb, pd>> IN
       FireFrom(o, Tail(ls), aw[1], aw[2])
SetLevel(o, p, v) == [o EXCEPT !.pool[p].level = v]
\* result of `await tracked.set(v)` up to (not including) the postpone: <<obj', subs', pending'>>
TSet(o, p, v, sb, pd) == LET o1 == SetLevel(o, p, v) f == FireFrom(o1, o1.lst[p], sb, pd) IN <<o1, f[1], f[2]>>

\* anonymous helper activities scheduled by BorrowedResources.__aexit__ on GeneratorExit
Hlp(p, delta, up) == <<"hlp", p, delta, up>>
DeliverHelper ==
  /\ Idle /\ pending # <<>> /\ fault = "" /\ Head(pending).tgt = 0 /\ Head(pending).sig[1] \in {"hlp", "nop"}
  /\ LET h == Head(pending).sig IN
     IF h[1] = "hlp"
     THEN LET p == h[2]  v == IF h[4] THEN VAdd(obj.pool[p].level, h[3]) ELSE VSub(obj.pool[p].level, h[3])
              r == TSet(obj, p, v, subs, Tail(pending)) IN
          /\ obj' = r[1] /\ subs' = r[2]
          /\ pending' = Append(r[3], Actv(0, <<"nop">>))          \* its own `await postpone()`
          /\ fault' = IF VNeg(v) THEN "negative_level" ELSE fault
     ELSE /\ pending' = Tail(pending) /\ UNCHANGED <<obj, subs, fault>>
  /\ ev' = <<>>
  /\ UNCHANGED <<now, future, act, run, task, sc, flag, lock, cnt>>

\* BorrowedResources.__aenter__ / __aexit__ :  frame borrow(p, sh, amt, ph)
\*   ph: "wait" (awaiting available >= amt)  "rm" (removed from p, postponing)  "ins" (inserted into share, postponing)
\*       "body"  "x1" (removed from share, postponing)  "x2" (given back to p, postponing)
BorrowStep ==
  /\ Running /\ Top(A).k = "borrow" /\ Top(A).ph # "body"
  /\ LET fr == Top(A) p == fr.p sh == fr.sh amt == fr.amt IN
     IF Mode = "exc"
     THEN \* an exception during acquisition or release skips the remaining transfers (see DESIGN.md: known finding)
          /\ act' = Drop(act, A)
          /\ UNCHANGED <<run, obj, subs, pending, fault>>
          /\ ev' = IF fr.x # NoSig     \* the body had already been left by an exception: the block reports the final one
                    THEN E([e |-> "u", a |-> A, op |-> "body", blk |-> "res", id |-> p, t |-> now, exc |-> X]) ELSE <<>>
     ELSE /\ ev' = IF fr.ph = "x2" /\ fr.x # NoSig
                    THEN E([e |-> "u", a |-> A, op |-> "body", blk |-> "res", id |-> p, t |-> now, exc |-> fr.x]) ELSE <<>>
          /\ CASE fr.ph = "wait" ->
                 \* available >= amt now: remove from the supply, postpone
                 LET r == TSet(obj, p, VSub(obj.pool[p].level, amt), subs, pending) IN
                 /\ obj' = r[1] /\ subs' = r[2]
                 /\ DoPostpone(SetTop(act, A, [fr EXCEPT !.ph = "rm"]), r[3])
                 /\ fault' = IF ~VGe(obj.pool[p].level, amt) THEN "negative_level" ELSE fault
            [] fr.ph = "rm" ->
                 LET r == TSet(obj, sh, VAdd(obj.pool[sh].level, amt), subs, pending) IN
                 /\ obj' = r[1] /\ subs' = r[2]
                 /\ DoPostpone(SetTop(act, A, [fr EXCEPT !.ph = "ins"]), r[3])
                 /\ fault' = fault
            [] fr.ph = "ins" ->
                 /\ act' = SetTop(act, A, [fr EXCEPT !.ph = "body"])
                 /\ UNCHANGED <<run, obj, subs, pending, fault>>
            [] fr.ph = "x1" ->
                 LET r == TSet(obj, p, VAdd(obj.pool[p].level, amt), subs, pending) IN
                 /\ obj' = r[1] /\ subs' = r[2]
                 /\ DoPostpone(SetTop(act, A, [fr EXCEPT !.ph = "x2"]), r[3])
                 /\ fault' = fault
            [] fr.ph = "x2" ->
                 \* block left; an exception that was passing through continues
                 /\ act' = Drop(act, A)
                 /\ IF fr.x = NoSig THEN UNCHANGED run ELSE SetRun("exc", fr.x)
                 /\ UNCHANGED <<obj, subs, pending, fault>>
  /\ UNCHANGED <<now, future, task, sc, flag, lock, cnt>>

\* leave the body of a borrow block (normally: x = NoSig, or with exception x passing through)
StartGiveBack(ac, fr, x) ==
  LET r == TSet(obj, fr.sh, VSub(obj.pool[fr.sh].level, fr.amt), subs, pending) IN
  /\ obj' = r[1] /\ subs' = r[2]
  /\ DoPostpone(SetTop(ac, A, [fr EXCEPT !.ph = "x1", !.x = x]), r[3])

BorrowBodyExc ==
  /\ Running /\ Mode = "exc" /\ Top(A).k = "borrow" /\ Top(A).ph = "body" /\ act[A].cur.op = "none"
  /\ LET fr == Top(A) IN
     IF IsGenExit(X)
     THEN \* killed forcefully: two new activities give the resources back later in this time step
          /\ act' = Drop(act, A)
          /\ pending' = pending \o <<Actv(0, Hlp(fr.sh, fr.amt, FALSE)), Actv(0, Hlp(fr.p, fr.amt, TRUE))>>
          /\ UNCHANGED <<run, obj, subs>>
     ELSE StartGiveBack(act, fr, X)
  /\ ev' = IF IsGenExit(X) THEN E([e |-> "u", a |-> A, op |-> "body", blk |-> "res", id |-> Top(A).p, t |-> now, exc |-> X])
            ELSE <<>>
  /\ UNCHANGED <<now, future, task, sc, flag, lock, cnt, fault>>

ResOp ==
  /\ Running /\ Mode = "ret" /\ User(A) /\ act[A].cur.op = "none"
  /\ LET ac == Spend(act) IN
     \/ \* end of the program inside a borrow block: leave it
        /\ Top(A).k = "borrow"
        /\ StartGiveBack([act EXCEPT ![A].ops = 0, ![A].cur = [op |-> "leave", blk |-> "res", id |-> Top(A).p]], Top(A), NoSig)
        /\ ev' = E(B([op |-> "leave", implicit |-> TRUE, blk |-> "res", id |-> Top(A).p]))
        /\ UNCHANGED <<cnt>>
     \/ /\ act[A].ops > 0 /\ In("borrow")
        /\ \E p \in 1..cnt.pool : \E amt \in Amts : \E claim \in BOOLEAN :
             /\ (claim => In("claim"))
             /\ (p > NRes => (In("nested") /\ VGe(obj.pool[p].debit, amt)
                              /\ \E i \in 1..Len(Stack(A)) : Stack(A)[i].k = "borrow" /\ Stack(A)[i].sh = p /\ Stack(A)[i].ph = "body"))
             /\ cnt.pool < MaxPools
             /\ LET sh == cnt.pool + 1
                    opn == IF claim THEN "claim" ELSE "borrow"
                    o1 == [obj EXCEPT !.pool[sh] = [level |-> Zero, parent |-> p, debit |-> amt, owner |-> A, open |-> TRUE]]
                    ac1 == Push([ac EXCEPT ![A].cur = [op |-> opn, p |-> p]], A,
                                [k |-> "borrow", p |-> p, sh |-> sh, amt |-> amt, ph |-> "wait", x |-> NoSig]) IN
                /\ cnt' = [cnt EXCEPT !.pool = sh]
                /\ ev' = E(B([op |-> opn, p |-> p, amt |-> amt[1], amtb |-> amt[2], sh |-> sh]))
                /\ IF VGe(obj.pool[p].level, amt)
                   THEN \* resume immediately (BorrowStep "wait" does the removal)
                        /\ obj' = o1 /\ act' = ac1 /\ UNCHANGED <<run, subs, pending>>
                   ELSE IF claim
                   THEN /\ obj' = o1 /\ act' = ac1 /\ SetRun("exc", <<"unavailable", p>>) /\ UNCHANGED <<subs, pending>>
                   ELSE \* await (available >= amt): a new comparison instance listens to p
                        LET n == Cmp(p, amt, A, Len(ac1[A].stack) + 1) IN
                        /\ obj' = [o1 EXCEPT !.lst[p] = Append(@, n)]
                        /\ DoSubscribe(Push(ac1, A, [k |-> "cwait", n |-> n]), subs, n)
                        /\ pending' = pending
     \/ /\ act[A].ops > 0 /\ In("leave") /\ Top(A).k = "borrow" /\ Top(A).ph = "body"
        /\ StartGiveBack([ac EXCEPT ![A].cur = [op |-> "leave", blk |-> "res", id |-> Top(A).p]], Top(A), NoSig)
        /\ ev' = E(B([op |-> "leave", implicit |-> FALSE, blk |-> "res", id |-> Top(A).p]))
        /\ UNCHANGED <<cnt>>
     \/ /\ act[A].ops > 0 /\ In("rchange")
        /\ \E p \in 1..NRes : \E kind \in {"inc", "dec", "rset"} : \E amt \in Amts : \E mask \in 1..(IF NT = 1 THEN 1 ELSE 3) :
             \* `set(**amounts)` replaces only the types it names (mask 1: a, 2: b, 3: both); increase / decrease take
             \* missing types as zero
             /\ (kind # "rset" => mask = (IF NT = 1 THEN 1 ELSE 3))
             /\ (kind = "rset" /\ mask = 1 => amt[2] = 0) /\ (kind = "rset" /\ mask = 2 => amt[1] = 0)
             /\ (kind = "dec" => VGe(obj.pool[p].level, amt))
             /\ LET lv == obj.pool[p].level
                    v == IF kind = "inc" THEN VAdd(lv, amt) ELSE IF kind = "dec" THEN VSub(lv, amt)
                         ELSE <<IF mask \in {1, 3} THEN amt[1] ELSE lv[1], IF mask \in {2, 3} THEN amt[2] ELSE lv[2]>>
                    r == TSet(obj, p, v, subs, pending) IN
                /\ v[1] <= MaxLevel /\ v[2] <= MaxLevel
                /\ obj' = r[1] /\ subs' = r[2]
                /\ DoPostpone([ac EXCEPT ![A].cur = [op |-> kind, p |-> p]], r[3])
                /\ ev' = E(B([op |-> kind, p |-> p, amt |-> amt[1], amtb |-> amt[2], mask |-> mask]))
        /\ UNCHANGED <<cnt>>
     \/ /\ act[A].ops > 0 /\ In("await_lvl")
        /\ \E p \in 1..NRes : \E v \in Amts : \E rel \in (IF In("lvl_rels") THEN Rels ELSE {"ge"}) :
           \E shared \in (IF In("lvl_shared") THEN BOOLEAN ELSE {FALSE}) :
             \* `await (resources <rel> {a: v})`: a fresh comparison instance listens to the level for as long as it is
             \* awaited; or (shared) ONE comparison object per (p, rel, v) that the client keeps and all its waiters share
             LET ac1 == [ac EXCEPT ![A].cur = [op |-> "await_lvl", p |-> p]]
                 n == IF shared THEN CmpR(p, v, 0, 0, rel) ELSE CmpR(p, v, A, Len(ac1[A].stack) + 1, rel)
                 o1 == IF \E i \in 1..Len(obj.lst[p]) : obj.lst[p][i] = n THEN obj ELSE [obj EXCEPT !.lst[p] = Append(@, n)] IN
             /\ obj' = o1
             /\ ev' = E(B([op |-> "await_lvl", p |-> p, v |-> v[1], vb |-> v[2], rel |-> rel, shared |-> shared, nt |-> NT]))
             /\ IF RelHolds(obj.pool[p].level, rel, v)
                THEN DoPostpone(Push(ac1, A, [k |-> "cwait", n |-> n]), pending) /\ subs' = subs
                ELSE DoSubscribe(Push(ac1, A, [k |-> "cwait", n |-> n]), subs, n) /\ pending' = pending
        /\ UNCHANGED <<cnt>>
     \/ /\ act[A].ops > 0 /\ In("levels")
        /\ \E p \in 1..NRes :
             /\ ev' = E([e |-> "p", a |-> A, t |-> now, op |-> "levels", p |-> p, v |-> obj.pool[p].level[1], vb |-> obj.pool[p].level[2]])
             /\ act' = ac
        /\ UNCHANGED <<obj, subs, pending, run, cnt>>
  /\ UNCHANGED <<now, future, task, sc, flag, lock, fault>>

----------------------------------------------------------------------------
\* TICKERS (usim/_primitives/timing.py): `async for now in interval(p)` / `delay(p)`
\* A ticker is an async generator; the client advances it one step at a time with the op `tick i`
\* (slot i of TickTable[TickSel] gives kind and period); between two steps the client runs the loop body.
\* act[a].tk[i] = [on, last]: generator alive, time of the last tick (interval only)
TickTable == [
  none  |-> <<>>,
  basic |-> <<[kind |-> "interval", p |-> 1], [kind |-> "delay", p |-> 1]>>,
  mixed |-> <<[kind |-> "interval", p |-> 2], [kind |-> "interval", p |-> 0], [kind |-> "delay", p |-> 0], [kind |-> "delay", p |-> 2]>>
]
Tickers == TickTable[TickSel]
Exceeded == <<"exceeded">>            \* IntervalExceeded

TickStep ==
  /\ Running /\ Top(A).k = "tick"
  /\ LET fr == Top(A) i == fr.i IN
     IF Mode = "exc"
     THEN \* the generator is finished by the exception
          /\ act' = [Drop(act, A) EXCEPT ![A].tk[i] = [on |-> FALSE, last |-> 0]] /\ run' = run
     ELSE \* the pause is over: last_time = time.now; yield last_time
          /\ act' = [Drop(act, A) EXCEPT ![A].tk[i].last = now]
          /\ SetRun("ret", <<"val", now>>)
  /\ ev' = <<>>
  /\ UNCHANGED <<now, pending, future, task, sc, subs, flag, lock, obj, cnt, fault>>

TickOp ==
  /\ Running /\ Mode = "ret" /\ User(A) /\ act[A].cur.op = "none" /\ act[A].ops > 0 /\ In("tick")
  /\ \E i \in 1..Len(Tickers) :
       LET tk == Tickers[i]
           st == act[A].tk[i]
           last == IF st.on THEN st.last ELSE now          \* first step: last_time = time.now
           ac == [Spend(act) EXCEPT ![A].cur = [op |-> "tick", i |-> i], ![A].tk[i] = [on |-> TRUE, last |-> last]]
           rem == last + tk.p IN                            \* date of the next tick (interval)
       /\ ev' = E(B([op |-> "tick", i |-> i, kind |-> tk.kind, p |-> tk.p]))
       /\ IF tk.kind = "interval" /\ rem < now
          THEN \* the body took longer than the period
               /\ act' = [ac EXCEPT ![A].tk[i] = [on |-> FALSE, last |-> 0]]
               /\ SetRun("exc", Exceeded) /\ UNCHANGED <<pending, future>>
          ELSE LET due == IF tk.kind = "interval" THEN rem ELSE now + tk.p IN
               IF due > now
               THEN /\ due <= Horizon
                    /\ act' = Push(Push(ac, A, [k |-> "tick", i |-> i]), A, [k |-> "suspend"])
                    /\ future' = [future EXCEPT ![due] = Append(@, Actv(A, Wk(A, Depth(A) + 2)))]
                    /\ Hibernate /\ pending' = pending
               ELSE /\ DoPostpone(Push(ac, A, [k |-> "tick", i |-> i]), pending) /\ future' = future
  /\ UNCHANGED <<now, task, sc, subs, flag, lock, obj, cnt, fault>>

----------------------------------------------------------------------------
Keep(Act) == Act /\ UNCHANGED obj        \* the steps above do not touch stream state
Next ==
  \/ Keep(Deliver) \/ Keep(Advance)
  \/ Keep(WakeOwn) \/ Keep(UnwindWait) \/ CondLoop \/ Keep(TaskAwaited)
  \/ Keep(OpDone) \/ Keep(OpRaised)
  \/ Keep(LockEntered) \/ Keep(HeldExc)
  \/ Keep(RunnerStart) \/ Keep(RunnerDelayed) \/ Keep(RunnerEnd) \/ Keep(UserExc)
  \/ Keep(Graceful) \/ Keep(Abort) \/ Keep(CloseNext) \/ Keep(Propagate)
  \/ Keep(UserOp)
  \/ StreamOp \/ QGetStep \/ ChanStep
  \/ CondOp \/ ConnStep \/ DeliverTrigger \/ HibExc
  \/ ResOp \/ BorrowStep \/ BorrowBodyExc \/ DeliverHelper
  \/ TickOp \/ TickStep \/ GraceStep

Spec == Init /\ [][Next]_vars
=============================================================================
