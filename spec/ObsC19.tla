------------------------------- MODULE ObsC19 -------------------------------
(* C19 - SimPy resources keep capacity, conserve content, serve requests in *)
(*       policy order.  The trace carries the history (`sc`) and one        *)
(*       snapshot of the real resource after every operation (taken at the  *)
(*       end of its time step); the monitor recomputes SimPySem for every   *)
(*       prefix of the history and compares.                                *)
EXTENDS SimPySem, TLC, Json, IOUtils
Batch == JsonDeserialize(IOEnv.TRACE_FILE)
Traces == Batch.traces
N == Len(Traces)
VARIABLES tid, l, sc, bad
vars == <<tid, l, sc, bad>>
Init == tid \in 1..N /\ l = 1 /\ bad = "" /\ sc = [on |-> FALSE]
SeqSet(s) == {s[i] : i \in 1..Len(s)}
Step ==
  /\ l <= Len(Traces[tid]) /\ bad = ""
  /\ l' = l + 1 /\ UNCHANGED tid
  /\ LET e == Traces[tid][l] IN
     CASE e.e = "sc" -> sc' = [on |-> TRUE, kind |-> e.kind, cap |-> e.cap, init |-> e.init, hist |-> e.hist, pair |-> e.pair] /\ bad' = ""
       [] e.e = "snap" ->
            LET want == Project(RunP(New(sc.kind, sc.cap, sc.init), SubSeq(sc.hist, 1, e.i), 1, sc.pair)) IN
            /\ sc' = sc
            /\ bad' = IF e.level > sc.cap \/ Len(e.users) > sc.cap \/ Len(e.items) > sc.cap THEN "C19.capacity"
                      ELSE IF e.level # want.level THEN "C19.conservation"
                      ELSE IF SeqSet(e.granted) # want.granted THEN
                           (IF SeqSet(e.granted) \subseteq want.granted THEN "C19.grantable_pending" ELSE "C19.policy_order")
                      ELSE IF e.items # want.items THEN "C19.item_order"
                      ELSE IF SeqSet(e.users) # want.users THEN "C19.users"
                      ELSE IF SeqSet(e.got) # SeqSet(want.got) THEN "C19.item_delivery"
                      ELSE IF e.evicted # want.evicted THEN "C19.preemption"
                      ELSE IF e.nput # want.nput \/ e.nget # want.nget THEN "C19.cancel_release"
                      ELSE ""
       [] e.e = "err" -> sc' = sc /\ bad' = "C19.run_failed"
       [] OTHER -> sc' = sc /\ bad' = ""
Spec == Init /\ [][Step]_vars
Report == (bad # "") => PrintT(<<"V", tid, bad, l - 1>>)
=============================================================================
