SPECIFICATION Spec
CONSTANTS
  Threads = {1, 2}
  MaxDepth = 2
  MaxRuns = 5
  Shared = FALSE
INVARIANT Isolation
INVARIANT ProbeSeesOwn
CHECK_DEADLOCK FALSE
