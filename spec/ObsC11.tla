------------------------------- MODULE ObsC11 -------------------------------
(* C11 - Channel broadcasts every message to every subscribed consumer, in  *)
(*       order, once                                                        *)
EXTENDS ObsBase
Cs == 1..2
Ids == 1..16
VARIABLES tid, l, puts, closed, con, sgl, bad
vars == <<tid, l, puts, closed, con, sgl, bad>>
\* puts[c]: accepted messages in order.  con[c][a] = [on, from, got, waiting] iteration of activity a
\* sgl[c][a] = [on, from] a pending single `await channel`
NoCon == [on |-> FALSE, from |-> 0, got |-> 0, waiting |-> FALSE]
NoSgl == [on |-> FALSE, from |-> 0, wasclosed |-> FALSE]
Init == /\ tid \in 1..N /\ l = 1 /\ bad = ""
        /\ puts = [c \in Cs |-> <<>>] /\ closed = [c \in Cs |-> FALSE]
        /\ con = [c \in Cs |-> [a \in Ids |-> NoCon]] /\ sgl = [c \in Cs |-> [a \in Ids |-> NoSgl]]
Fail(c) == bad' = c /\ UNCHANGED <<puts, closed, con, sgl>>
Skip == UNCHANGED <<puts, closed, con, sgl, bad>>
Step ==
  /\ l <= Len(Traces[tid]) /\ bad = ""
  /\ l' = l + 1 /\ UNCHANGED tid
  /\ LET e == Traces[tid][l] a == F(e, "a", 0) op == F(e, "op", "") IN
     CASE e.e = "b" /\ op = "cput" ->
            IF e.v = 0 THEN Skip ELSE puts' = [puts EXCEPT ![e.c] = Append(@, e.v)] /\ UNCHANGED <<closed, con, sgl, bad>>
       [] e.e = "r" /\ op = "cput" ->
            IF Traces[tid][l - 1].e = "b" /\ F(Traces[tid][l - 1], "op", "") = "cput" /\ Traces[tid][l - 1].v = 0
            THEN Fail("C11.put_on_closed_accepted") ELSE Skip
       [] e.e = "b" /\ op = "cclose" ->
            closed' = [closed EXCEPT ![e.c] = TRUE] /\ UNCHANGED <<puts, con, sgl, bad>>
       [] e.e = "b" /\ op = "cnext" ->
            LET c == e.c k == con[c][a] IN
            con' = [con EXCEPT ![c][a] = IF k.on THEN [k EXCEPT !.waiting = TRUE]
                                         ELSE [on |-> TRUE, from |-> Len(puts[c]), got |-> 0, waiting |-> TRUE]]
            /\ UNCHANGED <<puts, closed, sgl, bad>>
       [] e.e = "r" /\ op = "cnext" ->
            LET c == e.c k == con[c][a] idx == k.from + k.got + 1 IN
            IF ~k.on THEN Fail("C11.delivery_without_subscription")
            ELSE IF idx > Len(puts[c]) THEN
                 (IF InSeq(puts[c], e.v) THEN Fail("C11.duplicate") ELSE Fail("C11.phantom_message"))
            ELSE IF puts[c][idx] # e.v THEN
                 (IF \E j \in 1..(idx - 1) : puts[c][j] = e.v THEN Fail("C11.duplicate")
                  ELSE IF InSeq(puts[c], e.v) THEN Fail("C11.missed") ELSE Fail("C11.phantom_message"))
            ELSE con' = [con EXCEPT ![c][a] = [k EXCEPT !.got = @ + 1, !.waiting = FALSE]] /\ UNCHANGED <<puts, closed, sgl, bad>>
       [] e.e = "x" /\ op = "cnext" ->
            LET c == e.c k == con[c][a] IN
            IF e.exc[1] # "stopiter" THEN Fail("C11.unexpected_exception")
            ELSE IF ~closed[c] THEN Fail("C11.closed_semantics")
            ELSE IF k.from + k.got # Len(puts[c]) THEN Fail("C11.missed")      \* pending messages first
            ELSE con' = [con EXCEPT ![c][a] = NoCon] /\ UNCHANGED <<puts, closed, sgl, bad>>
       [] (e.e = "u" /\ op = "cnext") \/ (e.e = "p" /\ op = "cstop") ->
            con' = [con EXCEPT ![e.c][a] = NoCon] /\ UNCHANGED <<puts, closed, sgl, bad>>
       [] e.e = "b" /\ op = "cget" ->
            sgl' = [sgl EXCEPT ![e.c][a] = [on |-> TRUE, from |-> Len(puts[e.c]), wasclosed |-> closed[e.c]]]
            /\ UNCHANGED <<puts, closed, con, bad>>
       [] e.e = "r" /\ op = "cget" ->
            LET c == e.c k == sgl[c][a] IN
            IF k.from + 1 > Len(puts[c]) \/ puts[c][k.from + 1] # e.v THEN Fail("C11.first_message")
            ELSE sgl' = [sgl EXCEPT ![c][a] = NoSgl] /\ UNCHANGED <<puts, closed, con, bad>>
       [] e.e = "x" /\ op = "cget" ->
            LET c == e.c k == sgl[c][a] IN
            IF e.exc[1] # "streamclosed" THEN Fail("C11.unexpected_exception")
            ELSE IF ~closed[c] THEN Fail("C11.closed_semantics")
            ELSE IF ~k.wasclosed /\ Len(puts[c]) > k.from THEN Fail("C11.first_message")  \* a message arrived before the close
            ELSE sgl' = [sgl EXCEPT ![c][a] = NoSgl] /\ UNCHANGED <<puts, closed, con, bad>>
       [] e.e = "u" /\ op = "cget" ->
            sgl' = [sgl EXCEPT ![e.c][a] = NoSgl] /\ UNCHANGED <<puts, closed, con, bad>>
       [] e.e = "x" /\ op = "cput" ->
            IF closed[F(Traces[tid][l - 1], "c", 1)] THEN Skip ELSE Fail("C11.put_refused_on_open_channel")
       [] e.e = "fin" ->
            IF ~e.ok THEN Skip
            \* a consumer left waiting although a message (or the close) it is entitled to has happened
            ELSE IF \E c \in Cs : \E k \in Ids : con[c][k].on /\ con[c][k].waiting
                                   /\ (con[c][k].from + con[c][k].got < Len(puts[c]) \/ closed[c])
                 THEN Fail("C11.missed")
            ELSE IF \E c \in Cs : \E k \in Ids : sgl[c][k].on /\ (Len(puts[c]) > sgl[c][k].from \/ closed[c])
                 THEN Fail("C11.first_message")
            ELSE Skip
       [] OTHER -> Skip
Spec == Init /\ [][Step]_vars
Report == (bad # "") => PrintT(<<"V", tid, bad, l - 1>>)
=============================================================================
