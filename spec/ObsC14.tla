------------------------------- MODULE ObsC14 -------------------------------
(* C14 - interval() ticks on a fixed grid, delay() pauses a fixed span, for *)
(*       any body                                                           *)
EXTENDS ObsBase
Ids == 1..48
Slots == 1..4
VARIABLES tid, l, now, tk, bad
vars == <<tid, l, now, tk, bad>>
\* tk[a][i] = [on, last, wait, due, exc]: generator alive, time of its last tick, a step in progress with its
\* expected resume date (`due`) or the expectation that it raises IntervalExceeded (`exc`)
NoTk == [on |-> FALSE, last |-> 0, wait |-> FALSE, due |-> 0, exc |-> FALSE, neg |-> FALSE]
Init == /\ tid \in 1..N /\ l = 1 /\ bad = "" /\ now = 0 /\ tk = [a \in Ids |-> [i \in Slots |-> NoTk]]
Fail(c) == bad' = c /\ UNCHANGED tk
Step ==
  /\ l <= Len(Traces[tid]) /\ bad = ""
  /\ l' = l + 1 /\ UNCHANGED tid
  /\ LET e == Traces[tid][l] a == F(e, "a", 0) op == F(e, "op", "") t == F(e, "t", now) IN
     /\ now' = IF e.e \in {"init", "fin"} THEN now ELSE t
     /\ IF e.e = "fin" THEN
           \* a run that ends because nothing is left to do cannot leave a step of a ticker pending: its date is always
           \* reachable (also a period of infinity - virtual time does reach infinity)
           (IF e.ok /\ \E b \in Ids : \E j \in DOMAIN tk[b] : tk[b][j].wait /\ ~tk[b][j].neg /\ ~tk[b][j].exc
            THEN Fail("C14.tick_never_came")
            \* ... nor can the simulation die of a kernel error under a ticker that is waiting for its next step
            ELSE IF ~e.ok /\ F(F(e, "out", [k |-> "ok"]), "k", "ok") = "exc" /\ F(F(e, "out", [k |-> "ok"]), "internal", FALSE)
                    /\ \E b \in Ids : \E j \in DOMAIN tk[b] : tk[b][j].wait /\ ~tk[b][j].neg /\ ~tk[b][j].exc
            THEN Fail("C14.run_died_under_ticker")
            ELSE UNCHANGED <<tk, bad>>)
        ELSE IF op # "tick" \/ a \notin Ids THEN UNCHANGED <<tk, bad>>
        ELSE LET i == e.i  st == tk[a][i] IN
        CASE e.e = "b" ->
               LET last == IF st.on THEN st.last ELSE t
                   \* integer traces: the monitor computes the grid itself; rank traces: the harness supplies it
                   due == IF "rank" \in DOMAIN e THEN F(e, "due", 0)
                          ELSE IF e.kind = "interval" THEN last + e.p ELSE t + e.p
                   exc == IF "rank" \in DOMAIN e THEN F(e, "late", FALSE)
                          ELSE e.kind = "interval" /\ last + e.p < t IN
               tk' = [tk EXCEPT ![a][i] = [on |-> TRUE, last |-> last, wait |-> TRUE, due |-> due, exc |-> exc,
                                            neg |-> F(e, "neg", FALSE)]]
               /\ UNCHANGED bad
          [] e.e = "r" ->
               IF ~st.wait THEN Fail("C14.tick_without_step")
               ELSE IF st.neg THEN Fail("C14.negative_period_not_rejected")
               ELSE IF st.exc THEN Fail("C14.exceeded_iff")            \* the body took longer than the period
               ELSE IF t # st.due THEN Fail("C14.grid")
               ELSE IF e.v # t THEN Fail("C14.value")                  \* yields the current time
               ELSE tk' = [tk EXCEPT ![a][i] = [st EXCEPT !.wait = FALSE, !.last = t]] /\ UNCHANGED bad
          [] e.e = "x" /\ st.neg ->
               \* negative periods are rejected
               IF e.exc[1] = "other" /\ e.exc[2] = "ValueError" THEN tk' = [tk EXCEPT ![a][i] = NoTk] /\ UNCHANGED bad
               ELSE Fail("C14.negative_period_not_rejected")
          [] e.e = "x" ->
               IF e.exc[1] # "exceeded" THEN Fail("C14.unexpected_exception")
               ELSE IF ~st.exc THEN Fail("C14.exceeded_iff")
               ELSE tk' = [tk EXCEPT ![a][i] = NoTk] /\ UNCHANGED bad
          \* a step that is late raises IntervalExceeded at once: there is no suspension at which a signal could arrive first
          [] e.e = "u" /\ st.exc /\ ~st.neg /\ e.exc # <<>> /\ e.exc[1] \in {"ci", "cs", "ct"} -> Fail("C14.exceeded_iff")
          [] e.e = "u" -> tk' = [tk EXCEPT ![a][i] = NoTk] /\ UNCHANGED bad
          [] OTHER -> UNCHANGED <<tk, bad>>
Spec == Init /\ [][Step]_vars
Report == (bad # "") => PrintT(<<"V", tid, bad, l - 1>>)
=============================================================================
