------------------------------- MODULE FlowSem -------------------------------
(* collect() / first(): functional semantics and scenario space (C16).      *)
(* A scenario is a call with n activities, each with a duration and an      *)
(* outcome.  TLC enumerates every scenario (initial states) and checks the  *)
(* algebraic sanity of the semantics; the monitor ObsC16 reuses the same    *)
(* operators to judge traces recorded from the real code.                   *)
EXTENDS Naturals, Sequences, FiniteSets, SequencesExt, FiniteSetsExt, TLC, Json

Before(acts, i, j) == acts[i].d < acts[j].d \/ (acts[i].d = acts[j].d /\ i < j)
\* indices in order of completion (ties: argument order)
Order(acts) == SortSeq([i \in 1..Len(acts) |-> i], LAMBDA i, j : Before(acts, i, j))
Fails(acts) == {i \in 1..Len(acts) : acts[i].f}
\* time (relative to the call) of the first failure, and the activities failing in that time step, in order
TFail(acts) == Min({acts[i].d : i \in Fails(acts)})
FailNow(acts) == SelectSeq(Order(acts), LAMBDA i : acts[i].f /\ acts[i].d = TFail(acts))
OkOrder(acts) == SelectSeq(Order(acts), LAMBDA i : ~acts[i].f)
MaxDurOf(acts) == Max({acts[i].d : i \in 1..Len(acts)} \cup {0})
Result(i) == 100 + i

\* collect: all results in argument order at the time of the slowest, or the failure at its time
CollectOk(acts) == Fails(acts) = {}
CollectTime(acts) == IF CollectOk(acts) THEN MaxDurOf(acts) ELSE TFail(acts)
CollectValue(acts) == [i \in 1..Len(acts) |-> Result(i)]

\* first(count = k):  k = 99 stands for None
Want(acts, k) == IF k = 99 THEN Len(acts) ELSE k
\* results available without meeting a failure first: the ok activities that complete strictly before the
\* first failure's time step (those in the same step may or may not still be delivered)
SureBeforeFail(acts) == IF Fails(acts) = {} THEN OkOrder(acts)
                        ELSE SelectSeq(OkOrder(acts), LAMBDA i : acts[i].d < TFail(acts))
=============================================================================
