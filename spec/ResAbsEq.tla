------------------------------ MODULE ResAbsEq ------------------------------
(* TLC: the quantifier-free step relation NextD of ResAbs (used in the      *)
(* refinement check) and the one with named amounts (Next, used by Apalache *)
(* and read by humans) are the same relation, on every pair of states of a  *)
(* ledger with components 0..M.                                             *)
EXTENDS Integers, Sequences
CONSTANT M
VARIABLES level, out
RA == INSTANCE ResAbs
Box == (0..M) \X (0..M)
Init == level \in Box /\ out \in Box
Step == level' \in Box /\ out' \in Box
NextB == \E a \in Box \ {<<0, 0>>} : RA!Take(a) \/ RA!Give(a) \/ RA!Forfeit(a) \/ RA!Change(a) \/ RA!Change(<<0, 0>>)
Same == [][RA!NextD <=> NextB]_<<level, out>>
SpecEq == Init /\ [][Step]_<<level, out>>
=============================================================================
