------------------------------- MODULE ObsC05 -------------------------------
(* C05 - A scope fails as itself or as Concurrent: promptly, right content  *)
EXTENDS ObsBase
Ids == 1..16
VARIABLES tid, l, sco, par, own, live, gone, bad
vars == <<tid, l, sco, par, own, live, gone, bad>>
\* sco[s] = [owner, open, fails, tfail]   par[k] = scope of task k
\* own[a] = the exception most recently raised in / escaping from a block in activity a's own code
NoScope == [owner |-> 0, open |-> FALSE, fails |-> <<>>, tfail |-> 0, failed |-> FALSE]
Init == /\ tid \in 1..N /\ l = 1 /\ bad = ""
        /\ sco = [s \in Ids |-> NoScope] /\ par = [k \in Ids |-> 0] /\ own = [i \in Ids |-> <<>>]
        /\ live = {} /\ gone = {}     \* tasks whose code has started and not ended / has ended
IsPriv(x) == x # <<>> /\ x[1] = "exc" /\ x[3] \in {"Assert", "AssertSub"}
Privs(fs) == SelectSeq(fs, IsPriv)
Fail(c) == bad' = c /\ UNCHANGED <<sco, par, own>>
\* is task k (transitively) inside scope s?
RECURSIVE Inside(_, _, _)
Inside(k, s, fuel) == IF fuel = 0 \/ k \notin Ids \/ par[k] = 0 THEN FALSE
                      ELSE par[k] = s \/ Inside(sco[par[k]].owner, s, fuel - 1)
Step ==
  /\ l <= Len(Traces[tid]) /\ bad = ""
  /\ l' = l + 1 /\ UNCHANGED tid
  /\ LET e == Traces[tid][l] a == F(e, "a", 0) op == F(e, "op", "") IN
     /\ gone' = IF e.e = "end" THEN gone \cup {a} ELSE gone
     /\ live' = IF e.e = "end" THEN live \ {a}
                ELSE IF a \in Ids /\ a \notin gone /\ par[a] # 0 /\ e.e \in {"b", "r", "x", "p"} THEN live \cup {a} ELSE live
     /\ (IF a \in Ids /\ e.e # "fin" /\ \E s \in Ids : sco[s].failed /\ Inside(a, s, 8)
         THEN Fail("C05.child_outlived_failure") ELSE
         CASE e.e = "b" /\ op = "open" ->
            /\ sco' = [sco EXCEPT ![e.s] = [NoScope EXCEPT !.owner = a, !.open = TRUE]] /\ UNCHANGED <<par, own, bad>>
       [] e.e = "b" /\ op = "do" /\ e.k # 0 ->
            /\ par' = [par EXCEPT ![e.k] = e.s] /\ UNCHANGED <<sco, own, bad>>
       [] e.e = "b" /\ op = "raise" ->
            /\ own' = [own EXCEPT ![a] = <<"exc", e.id, e.cls>>] /\ UNCHANGED <<sco, par, bad>>
       [] e.e = "end" /\ e.how = "failed" /\ a \in Ids /\ par[a] # 0 ->
            \* a direct child of par[a] failed with e.exc
            LET s == par[a] IN
            IF ~sco[s].open THEN Fail("C05.child_failed_after_exit")
            ELSE /\ sco' = [sco EXCEPT ![s].fails = Append(@, e.exc),
                                       ![s].tfail = IF sco[s].fails = <<>> THEN e.t ELSE @]
                 /\ UNCHANGED <<par, own, bad>>
       [] e.e \in {"r", "x", "u"} /\ F(e, "blk", "") = "scope" /\ op \in {"leave", "body"} ->
            LET s == e.id  fs == sco[s].fails  o == sco[s].owner
                out == IF e.e = "r" THEN <<>> ELSE e.exc
                Done == /\ sco' = [sco EXCEPT ![s].open = FALSE, ![s].failed = (fs # <<>> \/ out # <<>>)]
                        /\ own' = IF e.e = "u" THEN [own EXCEPT ![o] = out] ELSE own
                        /\ UNCHANGED <<par, bad>> IN
            IF fs # <<>> /\ e.t # sco[s].tfail THEN Fail("C05.late_exit")
            \* the first failure aborts ALL remaining children (and their descendants)
            ELSE IF (fs # <<>> \/ out # <<>>) /\ \E k \in live : Inside(k, s, 8) THEN Fail("C05.children_not_aborted")
            ELSE IF out = <<>> THEN (IF fs # <<>> THEN Fail("C05.failure_swallowed") ELSE Done)
            ELSE IF Privs(fs) # <<>>
                 THEN (IF out = Privs(fs)[1] \/ (IsPriv(out) /\ out = own[o]) THEN Done ELSE Fail("C05.privileged_lost"))
            ELSE IF out = own[o] THEN Done                           \* the very exception the body raised
            ELSE IF out[1] = "conc" THEN (IF out[2] = fs THEN Done ELSE Fail("C05.children_mismatch"))
            ELSE IF out[1] \in {"cs", "ci"} /\ out[2] = s THEN Fail("C05.own_signal_escaped")
            ELSE IF out[1] \in {"cs", "ci", "ct", "genexit"} THEN Done   \* a foreign signal passes through
            ELSE Fail("C05.outcome_kind")
       [] OTHER -> UNCHANGED <<sco, par, own, bad>>)
Spec == Init /\ [][Step]_vars
Report == (bad # "") => PrintT(<<"V", tid, bad, l - 1>>)
=============================================================================
