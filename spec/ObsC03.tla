------------------------------- MODULE ObsC03 -------------------------------
(* C03 - The kernel never fails on its own: no leaked signal, internal      *)
(*       error or livelock                                                  *)
EXTENDS ObsBase
Ids == 1..200
VARIABLES tid, l, sco, bad
vars == <<tid, l, sco, bad>>
\* sco[s] = [owner, open]
Init == /\ tid \in 1..N /\ l = 1 /\ bad = "" /\ sco = [s \in Ids |-> [owner |-> 0, open |-> FALSE]]
Fail(c) == bad' = c /\ UNCHANGED sco
Step ==
  /\ l <= Len(Traces[tid]) /\ bad = ""
  /\ l' = l + 1 /\ UNCHANGED tid
  /\ LET e == Traces[tid][l] a == F(e, "a", 0) op == F(e, "op", "") x == F(e, "exc", <<>>) IN
     IF e.e = "fin"
     THEN IF e.out.k = "livelock" THEN Fail("C03.livelock")
          ELSE IF e.out.k = "exc" /\ e.out.internal THEN Fail("C03.run_raised_internal")
          ELSE UNCHANGED <<sco, bad>>
     \* signals seen by user code
     ELSE IF x # <<>> /\ x[1] = "wk" THEN Fail("C03.wakeup_seen_by_user")
     ELSE IF x # <<>> /\ x[1] = "other" THEN Fail("C03.internal_error_seen_by_user")
     ELSE IF x # <<>> /\ x[1] = "ct" /\ x[2] # a THEN Fail("C03.signal_to_wrong_target")
     ELSE IF x # <<>> /\ x[1] \in {"cs", "ci"} /\ ~(x[2] \in Ids /\ sco[x[2]].owner = a /\ sco[x[2]].open)
          THEN Fail("C03.signal_to_wrong_target")
     ELSE CASE e.e = "b" /\ op = "open" ->
                 sco' = [sco EXCEPT ![e.s] = [owner |-> a, open |-> TRUE]] /\ UNCHANGED bad
            [] e.e \in {"r", "x", "u"} /\ F(e, "blk", "") = "scope" /\ op \in {"leave", "body"} ->
                 IF x # <<>> /\ x[1] \in {"cs", "ci"} /\ x[2] = e.id THEN Fail("C03.signal_escaped_scope")
                 ELSE sco' = [sco EXCEPT ![e.id].open = FALSE] /\ UNCHANGED bad
            [] OTHER -> UNCHANGED <<sco, bad>>
Spec == Init /\ [][Step]_vars
Report == (bad # "") => PrintT(<<"V", tid, bad, l - 1>>)
=============================================================================
