------------------------------- MODULE ObsC15 -------------------------------
(* C15 - run() ends at quiescence, reports failures and keeps simulations   *)
(*       isolated.  A trace is the merged, lock-ordered event sequence of   *)
(*       all threads of one experiment.                                     *)
EXTENDS ObsBase
Ths == 1..8
VARIABLES tid, l, stack, info, dead, bad
vars == <<tid, l, stack, info, dead, bad>>
\* stack[th]: run ids the thread is inside (innermost last); info[run] = [start, roots, next, ended]
\* dead: runs that have returned
\* hastill / till: the run was given an absolute end date; lt[i]: date of the latest step of endless root i
NoInfo == [start |-> 0, roots |-> <<>>, next |-> 1, ended |-> {}, hastill |-> FALSE, till |-> 0, lt |-> [i \in 1..8 |-> 0 - 1000]]
Init == /\ tid \in 1..N /\ l = 1 /\ bad = "" /\ stack = [t \in Ths |-> <<>>]
        /\ info = [r \in 1..64 |-> NoInfo] /\ dead = {}
Fail(c) == bad' = c /\ UNCHANGED <<stack, info, dead>>
TopOf(th) == IF stack[th] = <<>> THEN 0 ELSE stack[th][Len(stack[th])]
\* roots whose own code ends the run: the first (by duration, then argument order) that raises or returns a value
Bad(roots) == {i \in 1..Len(roots) : roots[i].kind \in {"raise", "ret"}}
FirstBad(roots) == CHOOSE i \in Bad(roots) : \A j \in Bad(roots) :
                      roots[i].d < roots[j].d \/ (roots[i].d = roots[j].d /\ i <= j)
Step ==
  /\ l <= Len(Traces[tid]) /\ bad = ""
  /\ l' = l + 1 /\ UNCHANGED tid
  /\ LET e == Traces[tid][l] th == F(e, "th", 1) r == F(e, "run", 0) IN
     IF r # 0 /\ r \in dead THEN Fail("C15.ran_after_return")
     ELSE CASE e.e = "outside" ->
                 \* between runs the thread sees no simulation: time.now raises
                 IF stack[th] = <<>> /\ ~e.raised THEN Fail("C15.loop_visible_after")
                 ELSE UNCHANGED <<stack, info, dead, bad>>
            [] e.e = "enter" ->
                 /\ stack' = [stack EXCEPT ![th] = Append(@, r)]
                 /\ info' = [info EXCEPT ![r] = [NoInfo EXCEPT !.start = e.start, !.roots = e.roots,
                                                                !.hastill = F(e, "hastill", FALSE), !.till = F(e, "till", 0)]]
                 /\ UNCHANGED <<dead, bad>>
            [] e.e = "first" ->
                 IF TopOf(th) # r THEN Fail("C15.foreign_loop")
                 ELSE IF e.root # info[r].next THEN Fail("C15.root_order")
                 ELSE IF e.t # info[r].start THEN Fail("C15.root_start")
                 ELSE info' = [info EXCEPT ![r].next = @ + 1] /\ UNCHANGED <<stack, dead, bad>>
            [] e.e = "probe" ->
                 IF TopOf(th) # r THEN Fail("C15.foreign_loop")
                 ELSE IF e.raised THEN Fail("C15.simulation_lost")      \* time.now failed inside a running simulation
                 ELSE IF e.v # e.expect THEN Fail("C15.clock_disturbed")
                 ELSE IF info[r].hastill /\ e.v > info[r].till THEN Fail("C15.ran_past_till")
                 ELSE UNCHANGED <<stack, info, dead, bad>>
            [] e.e = "tick" ->
                 IF TopOf(th) # r THEN Fail("C15.foreign_loop")
                 ELSE IF e.t # e.expect THEN Fail("C15.clock_disturbed")
                 ELSE IF info[r].hastill /\ e.t > info[r].till THEN Fail("C15.ran_past_till")
                 ELSE info' = [info EXCEPT ![r].lt[e.root] = e.t] /\ UNCHANGED <<stack, dead, bad>>
            [] e.e = "root_end" ->
                 info' = [info EXCEPT ![r].ended = @ \cup {e.root}] /\ UNCHANGED <<stack, dead, bad>>
            [] e.e = "exit" ->
                 LET roots == info[r].roots IN
                 IF TopOf(th) # r THEN Fail("C15.exit_not_innermost")
                 ELSE IF info[r].hastill THEN
                      \* ended by its date: no failure, everything due BEFORE the date has happened, nothing after it
                      (LET st == info[r].start  tl == info[r].till IN
                      IF e.out # "ok" THEN Fail("C15.outcome")
                      ELSE IF \E i \in 1..Len(roots) : roots[i].kind = "ok" /\ st + roots[i].d < tl /\ i \notin info[r].ended
                           THEN Fail("C15.ended_before_till")
                      ELSE IF \E i \in 1..Len(roots) : roots[i].kind = "forever" /\ st + roots[i].d + 1 <= tl - 1
                                                        /\ info[r].lt[i] < tl - 1
                           THEN Fail("C15.ended_before_till")
                      ELSE /\ stack' = [stack EXCEPT ![th] = SubSeq(@, 1, Len(@) - 1)]
                           /\ dead' = dead \cup {r} /\ UNCHANGED <<info, bad>>)
                 ELSE IF Bad(roots) = {} /\ e.out # "ok" THEN Fail("C15.outcome")
                 ELSE IF Bad(roots) = {} /\ info[r].ended # 1..Len(roots) THEN Fail("C15.not_quiescent_at_return")
                 ELSE IF Bad(roots) # {} /\ roots[FirstBad(roots)].kind = "raise"
                         /\ ~(e.out = "exc" /\ e.id = 100 * r + FirstBad(roots)) THEN Fail("C15.exception_changed")
                 ELSE IF Bad(roots) # {} /\ roots[FirstBad(roots)].kind = "ret" /\ e.out # "leak"
                      THEN Fail("C15.leak_not_reported")
                 ELSE /\ stack' = [stack EXCEPT ![th] = SubSeq(@, 1, Len(@) - 1)]
                      /\ dead' = dead \cup {r} /\ UNCHANGED <<info, bad>>
            [] OTHER -> UNCHANGED <<stack, info, dead, bad>>
Spec == Init /\ [][Step]_vars
Report == (bad # "") => PrintT(<<"V", tid, bad, l - 1>>)
=============================================================================
