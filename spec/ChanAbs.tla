------------------------------ MODULE ChanAbs -------------------------------
(* Abstract specification of usim.Channel (C11): what a broadcast channel   *)
(* IS, independent of the event loop and of the notification that wakes the *)
(* consumers.                                                               *)
(*   bufs    one record [cid, items] per registered consumer, in the order  *)
(*           of registration; items = the messages that consumer has still  *)
(*           to see, oldest first                                           *)
(*   closed  no further messages are accepted                               *)
(*   nsent   id of the last message accepted (ids grow in put order)        *)
(*   ncons   id of the last consumer registered                             *)
(* Every message accepted while a consumer is registered is seen by that    *)
(* consumer exactly once and in put order: `Exact` below says that the      *)
(* backlog of every consumer is always the gapless run of the LAST messages *)
(* accepted - so nothing was lost, doubled or reordered on the way in, and  *)
(* `HeadOnly` says messages leave a backlog only at its head, one at a time.*)
(* TLC checks that USim refines this module (USimRef.tla); Apalache proves  *)
(* IndInv inductive (MC_ChanAbs.tla).                                       *)
EXTENDS Naturals, Sequences

\* AppendAll(bs, v): the sequence bs with v appended to the backlog of every record.  It is a parameter only because
\* TLC and Apalache type the natural definition differently (USimRef / MC_ChanAbs each supply the same function).
CONSTANT
  \* @type: (Seq({cid: Int, items: Seq(Int)}), Int) => Seq({cid: Int, items: Seq(Int)});
  AppendAll(_, _)

VARIABLES
  \* @type: Seq({cid: Int, items: Seq(Int)});
  bufs,
  \* @type: Bool;
  closed,
  \* @type: Int;
  nsent,
  \* @type: Int;
  ncons

cvars == <<bufs, closed, nsent, ncons>>

Init == bufs = <<>> /\ closed = FALSE /\ nsent = 0 /\ ncons = 0

\* @type: (Seq({cid: Int, items: Seq(Int)}), Int) => Bool;
Registered(bs, c) == \E i \in DOMAIN bs : bs[i].cid = c

\* a message is accepted (only while the channel is open): EVERY registered consumer gets it, at the end of its backlog
Send == /\ ~closed
        /\ nsent' = nsent + 1
        /\ bufs' = AppendAll(bufs, nsent + 1)
        /\ UNCHANGED <<closed, ncons>>
Close == closed' = TRUE /\ UNCHANGED <<bufs, nsent, ncons>>
\* a consumer registers (await channel / first step of async for): it starts with an empty backlog
Register == /\ ncons' = ncons + 1
            /\ bufs' = Append(bufs, [cid |-> ncons + 1, items |-> <<>>])
            /\ UNCHANGED <<closed, nsent>>
\* a consumer takes the OLDEST message of its backlog and stays registered (async for)
Take(c) == /\ \E i \in DOMAIN bufs : /\ bufs[i].cid = c /\ bufs[i].items # <<>>
                                      /\ bufs' = [bufs EXCEPT ![i].items = Tail(@)]
           /\ UNCHANGED <<closed, nsent, ncons>>
\* a consumer leaves: `await channel` has its message (or was interrupted), the iteration ended or was dropped
Leave(c) == LET \* @type: ({cid: Int, items: Seq(Int)}) => Bool;
                Others(b) == b.cid # c IN
            /\ Registered(bufs, c)
            /\ bufs' = SelectSeq(bufs, Others)
            /\ UNCHANGED <<closed, nsent, ncons>>

Next == Send \/ Close \/ Register \/ \E c \in 1..ncons : Take(c) \/ Leave(c)
Spec == Init /\ [][Next]_cvars

----------------------------------------------------------------------------
\* the backlog of every consumer is the gapless run of the last messages accepted
Exact == \A j \in DOMAIN bufs : LET it == bufs[j].items IN
            /\ Len(it) <= nsent
            /\ \A i \in DOMAIN it : it[i] = nsent - Len(it) + i
Distinct == \A i, j \in DOMAIN bufs : bufs[i].cid = bufs[j].cid => i = j
TypeOK == /\ nsent \in Nat /\ ncons \in Nat
          /\ \A j \in DOMAIN bufs : bufs[j].cid \in 1..ncons
IndInv == TypeOK /\ Exact /\ Distinct
\* a backlog changes only by one message appended at the end (the one just accepted) or taken from the head
HeadOnly == [][\A i \in DOMAIN bufs : \A j \in DOMAIN bufs' : bufs[i].cid = bufs'[j].cid =>
                  \/ bufs'[j].items = bufs[i].items
                  \/ bufs'[j].items = Append(bufs[i].items, nsent + 1) /\ nsent' = nsent + 1
                  \/ bufs[i].items # <<>> /\ bufs'[j].items = Tail(bufs[i].items)]_cvars
\* nobody is skipped: when a message is accepted every consumer registered before and after the step has it
Broadcast == [][nsent' # nsent => \A j \in DOMAIN bufs' : Registered(bufs, bufs'[j].cid) =>
                  bufs'[j].items # <<>> /\ bufs'[j].items[Len(bufs'[j].items)] = nsent']_cvars
\* consumers keep their order of registration and a consumer that left does not come back
OrderKept == [][\A i, j \in DOMAIN bufs' : i < j =>
                   \/ ~Registered(bufs, bufs'[j].cid) /\ bufs'[j].cid > ncons
                   \/ \E i2, j2 \in DOMAIN bufs : i2 < j2 /\ bufs[i2].cid = bufs'[i].cid /\ bufs[j2].cid = bufs'[j].cid]_cvars
ClosedForGood == [][closed => (closed' /\ nsent' = nsent)]_cvars
=============================================================================
