-------------------------------- MODULE Flow --------------------------------
(* Scenario space of collect() / first() (C16): TLC enumerates every call   *)
(* with up to MaxN activities (duration, outcome), every count and consumer  *)
(* behaviour, checks the semantics operators of FlowSem for sanity and       *)
(* prints each scenario; the harness runs them on the real code.             *)
EXTENDS FlowSem
----------------------------------------------------------------------------
CONSTANTS MaxN, Durs      \* durations of the activities; 99 stands for infinity (the harness passes math.inf)
VARIABLES sc
Scenarios ==
  [op : {"collect"}, acts : UNION {[1..n -> [d : Durs, f : BOOLEAN]] : n \in 0..MaxN}, k : {0},
   cons : {"prompt", "cancel1", "close1", "until1", "until0", "cancel0"}]
  \cup
  [op : {"first"}, acts : UNION {[1..n -> [d : Durs, f : BOOLEAN]] : n \in 1..MaxN},
   k : {0, 1, 2, 3, 4, 99}, cons : {"prompt", "slow", "break1", "cancel1", "close1", "until1", "until0", "cancel0"}]
\* consumer behaviours: prompt / slow (suspends between results) / break1 (leaves the iteration after one result) /
\* cancel1 (the caller is cancelled at +1) / close1 (the caller is a volatile task closed forcefully at +1) /
\* until1 (the call is made inside `async with until(time + 1)`: the interrupt of that block passes through it) /
\* until0 (inside `async with until(flag)` whose flag is already set) / cancel0 (the caller was woken and then cancelled
\* in this time step: the cancellation is in flight when the call is made) - in both the caller's interrupt is queued
\* BEFORE the call, so it strikes at the call's first suspension, when the activities have not had a turn yet
Init == sc \in Scenarios
Next == UNCHANGED sc
Spec == Init /\ [][Next]_sc

\* sanity of the semantics itself
OrderIsPermutation == LET o == Order(sc.acts) IN Len(o) = Len(sc.acts) /\ {o[i] : i \in 1..Len(o)} = 1..Len(sc.acts)
OrderSorted == LET o == Order(sc.acts) IN \A i \in 1..(Len(o) - 1) : Before(sc.acts, o[i], o[i + 1])
FailTimeIsFirst == Fails(sc.acts) # {} => \A i \in Fails(sc.acts) : TFail(sc.acts) <= sc.acts[i].d
Emit == PrintT(<<"W", ToJson(sc)>>)
=============================================================================
