SPECIFICATION Spec
CONSTANTS
  MaxX = 2
  Throughputs = {0, 2, 3}
  Volumes = {0, 2, 3, 6}
  Limits = {0, 1, 2, 6}
  Starts = {0, 1}
  Cancels = {0, 1, 2}
INVARIANT AllEnd
INVARIANT LoneTime
INVARIANT ZeroTakesNoTime
INVARIANT NotFasterThanLimit
CHECK_DEADLOCK FALSE
