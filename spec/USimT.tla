------------------------------- MODULE USimT -------------------------------
(* Trace validation against the OPERATIONAL specification: a trace recorded *)
(* from the real code (events b / r / x / u / p / g / end) is accepted iff  *)
(* USim has a behaviour that emits exactly these events in this order.      *)
(* The client choices of USim are resolved by the logged op_begin events;   *)
(* steps that emit nothing are internal.  Used to measure conformance       *)
(* ("drift") of arbitrary programs, not only of the witness programs TLC    *)
(* chose itself.  Non-acceptance is reported in the evidence, the verdicts  *)
(* come from the property monitors.                                         *)
EXTENDS USimProps, Json, IOUtils
Batch == JsonDeserialize(IOEnv.TRACE_FILE)
Real(i) == Batch.traces[i]
NTraces == Len(Batch.traces)
VARIABLES tid, pos
varsT == <<vars, tid, pos>>
InitT == Init /\ tid \in 1..NTraces /\ pos = 0
\* equality of a model event and a recorded event, evaluated so that TLC never compares values of different types
RECURSIVE SameExc(_, _)
SameExc(x, y) == IF x = <<>> \/ y = <<>> THEN x = <<>> /\ y = <<>>
                 ELSE /\ x[1] = y[1]
                      /\ IF x[1] = "conc"
                         THEN Len(x[2]) = Len(y[2]) /\ \A i \in 1..Len(x[2]) : SameExc(x[2][i], y[2][i])
                         ELSE x = y
SameEv(m, r) == /\ m.e = r.e /\ m.a = r.a /\ DOMAIN m = DOMAIN r
                /\ ("op" \in DOMAIN m => m.op = r.op)
                /\ \A f \in DOMAIN m \ {"exc"} : m[f] = r[f]
                /\ ("exc" \in DOMAIN m => SameExc(m.exc, r.exc))
\* the events of this step are the next events of the recorded trace
Match == LET n == Len(ev') IN
         /\ pos + n <= Len(Real(tid))
         /\ \A i \in 1..n : SameEv(ev'[i], Real(tid)[pos + i])
         /\ pos' = pos + n
NextT == Next /\ Match /\ UNCHANGED tid
SpecT == InitT /\ [][NextT]_varsT
\* printed once for every trace that was consumed completely by a terminated behaviour
Accepted == (pos = Len(Real(tid)) /\ (Quiescent \/ fault # "")) => PrintT(<<"A", tid>>)
=============================================================================
