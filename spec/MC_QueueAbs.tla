---------------------------- MODULE MC_QueueAbs ----------------------------
(* Apalache wrapper for QueueAbs: IndInv (with `Exact`: every accepted item *)
(* is buffered or was received, in order, exactly once) is inductive.       *)
(*   apalache-mc check --init=Init    --inv=IndInv --length=0 MC_QueueAbs.tla *)
(*   apalache-mc check --init=IndInit --inv=IndInv --length=1 MC_QueueAbs.tla *)
EXTENDS Naturals, Sequences, Apalache
Procs == {1, 2, 3, 4}
VARIABLES
  \* @type: Seq(Int);
  buf,
  \* @type: Bool;
  closed,
  \* @type: Seq(Int);
  recv,
  \* @type: Int;
  nput,
  \* @type: Int;
  last
INSTANCE QueueAbs
IndInit == /\ buf = Gen(8) /\ recv = Gen(5)
           /\ closed \in BOOLEAN
           /\ nput \in Nat /\ last \in Nat
           /\ IndInv
=============================================================================
