------------------------------- MODULE SimPyEv -------------------------------
(* Script space for the usim.py event / process layer (C18).  A script is a *)
(* list of up to NP processes, each a list of up to NS steps:               *)
(*   <<"to", d, v>>      yield env.timeout(d, v)                            *)
(*   <<"wait", e>>       yield shared event e                               *)
(*   <<"succ", e, v>>    e.succeed(v)        <<"fail", e>>   e.fail(exc)    *)
(*   <<"all", d1, d2>>   yield timeout(d1) & timeout(d2)                    *)
(*   <<"any", d, e>>     yield timeout(d) | event e                         *)
(*   <<"proc", k>>       yield process k                                    *)
(*   <<"intr", k, c>>    process k .interrupt(c)                            *)
(*   <<"native", d>>     yield (usim.time + d)   - a native notification    *)
(* and a way to run:  until in {0 (None), 1..2 (time), 10+e (event e)}.     *)
(* TLC enumerates the scripts; the harness runs them on the real layer and  *)
(* ObsC18 judges the traces.                                                *)
EXTENDS Naturals, Sequences, FiniteSets, TLC, Json
CONSTANTS NP, NS
VARIABLES sc
Step(i) == {<<"to", d, d + 5>> : d \in 0..2} \cup {<<"wait", e>> : e \in 1..2}
           \cup {<<"succ", e, 7>> : e \in 1..2} \cup {<<"fail", 1>>}
           \cup {<<"all", 1, 2>>, <<"all", 1, 1>>, <<"any", 2, 1>>, <<"any", 1, 2>>, <<"native", 1>>, <<"dall", 1, 2>>, <<"dwait", 1>>}
           \cup {<<"proc", k>> : k \in (1..NP) \ {i}} \cup {<<"intr", k, 40 + i>> : k \in (1..NP) \ {i}}
Init == \E n \in 1..NP : \E until \in {0, 2, 11} :
          \E ps \in [1..n -> UNION {[1..m -> UNION {Step(i) : i \in 1..NP}] : m \in 1..NS}] :
             /\ \A i \in 1..n : \A j \in 1..Len(ps[i]) :
                   (ps[i][j][1] \in {"proc", "intr"} => (ps[i][j][2] # i /\ ps[i][j][2] <= n))
             /\ sc = [until |-> until, procs |-> ps]
Next == UNCHANGED sc
Spec == Init /\ [][Next]_sc
Emit == PrintT(<<"W", ToJson(sc)>>)
=============================================================================
