------------------------------- MODULE ObsC07 -------------------------------
(* C07 - until()/run(till) end the block exactly when the notification      *)
(*       fires, else never                                                  *)
EXTENDS ObsBase
Ids == 1..200
VARIABLES tid, l, sco, flg, par, bad
vars == <<tid, l, sco, flg, par, bad>>
\* sco[s] = [owner, kind, f, open, trig (trigger time known), tt (trigger time), exited]
NoScope == [owner |-> 0, kind |-> "", f |-> 0, open |-> FALSE, trig |-> FALSE, tt |-> 0, exited |-> FALSE, c |-> <<>>]
Init == /\ tid \in 1..N /\ l = 1 /\ bad = ""
        /\ sco = [s \in Ids |-> NoScope] /\ flg = [f \in 1..4 |-> FALSE] /\ par = [k \in Ids |-> 0]
Fail(c) == bad' = c /\ UNCHANGED <<sco, flg>>
\* blocks whose trigger time the monitor knows: a delay, a flag, a date condition
Timed(sc) == sc.kind \in {"until_d", "until_f", "until_date", "until_conn"}
\* truth of a connective of flag atoms (<<"all"|"any", <<atoms>>>>, atoms <<"flag"|"nflag", f>>) for flag values fl
RECURSIVE EvC(_, _)
EvC(c, fl) == CASE c[1] = "flag" -> fl[c[2]] [] c[1] = "nflag" -> ~fl[c[2]]
                [] c[1] = "all" -> \A i \in 1..Len(c[2]) : EvC(c[2][i], fl)
                [] c[1] = "any" -> \E i \in 1..Len(c[2]) : EvC(c[2][i], fl)
                [] OTHER -> FALSE
IsConn(e) == e.kind = "until_c" /\ e.c[1] \in {"all", "any"}
\* the block(s) S outlived the moment their notification fired: if all of them wait for a connective that became true
\* after entry, this is the one way in which until(<connective>) is known to fail (nothing watches the connective)
Clause(S, c) == IF \A s \in S : sco[s].kind = "until_conn" THEN "C07.connective_not_watched" ELSE c
RECURSIVE Inside(_, _, _)
Inside(k, s, fuel) == IF fuel = 0 \/ k \notin Ids \/ par[k] = 0 THEN FALSE
                      ELSE par[k] = s \/ Inside(sco[par[k]].owner, s, fuel - 1)
Step ==
  /\ l <= Len(Traces[tid]) /\ bad = ""
  /\ l' = l + 1 /\ UNCHANGED tid
  /\ par' = IF Traces[tid][l].e = "b" /\ F(Traces[tid][l], "op", "") = "do" /\ Traces[tid][l].k # 0
             THEN [par EXCEPT ![Traces[tid][l].k] = Traces[tid][l].s] ELSE par
  /\ LET e == Traces[tid][l] a == F(e, "a", 0) op == F(e, "op", "") t == F(e, "t", 0)
         x == F(e, "exc", <<>>) IN
     \* an until-interrupt must never be seen once its block has been left, nor by anybody but the owner
     IF x # <<>> /\ x[1] = "ci" /\ x[2] \in Ids /\ (sco[x[2]].exited \/ sco[x[2]].owner # a)
     THEN Fail("C07.late_interrupt_after_completion")
     \* ... nor before the notification of a date / delay / flag block has fired
     ELSE IF x # <<>> /\ x[1] = "ci" /\ x[2] \in Ids /\ sco[x[2]].open /\ Timed(sco[x[2]])
             /\ (~sco[x[2]].trig \/ t < sco[x[2]].tt)
     THEN Fail("C07.interrupted_before_trigger")
     \* no code of the owner runs inside the block at a time later than the trigger
     ELSE IF e.e \in {"b", "r", "x", "p"} /\ ~(F(e, "blk", "") = "scope" /\ op \in {"leave", "body"})
             /\ \E s \in Ids : sco[s].owner = a /\ sco[s].open /\ sco[s].trig /\ t > sco[s].tt
          THEN Fail(Clause({s \in Ids : sco[s].owner = a /\ sco[s].open /\ sco[s].trig /\ t > sco[s].tt}, "C07.body_continued_after_trigger"))
     \* ... and no code of its children (they are closed when the notification fires)
     ELSE IF e.e \in {"b", "r", "x", "p"} /\ \E s \in Ids : sco[s].trig /\ t > sco[s].tt /\ Inside(a, s, 8)
          THEN Fail(Clause({s \in Ids : sco[s].trig /\ t > sco[s].tt /\ Inside(a, s, 8)}, "C07.child_ran_after_trigger"))
     ELSE CASE e.e = "b" /\ op = "open" ->
                 LET k == e.kind
                     isdate == k = "until_c" /\ e.c[1] \in {"ge", "eq"}
                     \* a date condition fires at its date, at once if it already holds, never if a moment has passed
                     trig == k = "until_d" \/ (k = "until_f" /\ flg[e.f]) \/ (isdate /\ ~(e.c[1] = "eq" /\ t > e.c[2]))
                             \/ (IsConn(e) /\ EvC(e.c, flg))
                     \* (`due`: now + delay as the harness computed it; recorded dates may be ranks of float dates)
                     tt == IF k = "until_d" THEN F(e, "due", t + F(e, "d", 0)) ELSE IF isdate /\ e.c[2] > t THEN e.c[2] ELSE t IN
                 /\ sco' = [sco EXCEPT ![e.s] = [owner |-> a, kind |-> IF isdate THEN "until_date" ELSE IF IsConn(e) THEN "until_conn" ELSE k,
                                                 f |-> F(e, "f", 0), open |-> TRUE,
                                                 trig |-> trig, tt |-> tt, exited |-> FALSE, c |-> IF IsConn(e) THEN e.c ELSE <<>>]]
                 /\ UNCHANGED <<flg, bad>>
            [] e.e = "b" /\ op = "fset" ->
                 /\ flg' = [flg EXCEPT ![e.f] = e.v]
                 \* the notification of every open until(flag) fires now
                 \* ... and that of every open until(<connective>) that holds from now on
                 /\ sco' = [s \in Ids |-> IF sco[s].open /\ sco[s].kind = "until_f" /\ sco[s].f = e.f /\ e.v
                                             /\ ~flg[e.f] /\ ~sco[s].trig
                                          THEN [sco[s] EXCEPT !.trig = TRUE, !.tt = t]
                                          ELSE IF sco[s].open /\ sco[s].kind = "until_conn" /\ ~sco[s].trig
                                                  /\ EvC(sco[s].c, [flg EXCEPT ![e.f] = e.v])
                                          THEN [sco[s] EXCEPT !.trig = TRUE, !.tt = t] ELSE sco[s]]
                 /\ UNCHANGED bad
            [] e.e \in {"r", "x", "u"} /\ F(e, "blk", "") = "scope" /\ op \in {"leave", "body"} ->
                 LET s == e.id IN
                 IF sco[s].trig /\ t > sco[s].tt THEN Fail(Clause({s}, "C07.late_exit"))
                 ELSE IF x # <<>> /\ x[1] = "ci" /\ x[2] = s THEN Fail("C07.raised")
                 ELSE sco' = [sco EXCEPT ![s].open = FALSE, ![s].exited = TRUE] /\ UNCHANGED <<flg, bad>>
            [] e.e = "fin" ->
                 \* a block whose notification fired cannot still be open when the run ends normally
                 IF e.ok /\ \E s \in Ids : sco[s].open /\ sco[s].trig
                 THEN Fail(Clause({s \in Ids : sco[s].open /\ sco[s].trig}, "C07.never_interrupted"))
                 \* "its children are closed": what a block ended by its notification leaves behind is dead.  A run that
                 \* later dies of a kernel error (never of the program's own exception) was brought down by a left-over
                 ELSE IF ~e.ok /\ F(F(e, "out", [k |-> "ok"]), "k", "ok") = "exc" /\ F(F(e, "out", [k |-> "ok"]), "internal", FALSE)
                         /\ \E s \in Ids : sco[s].exited /\ sco[s].trig
                 THEN Fail("C07.died_after_closing_children")
                 ELSE UNCHANGED <<sco, flg, bad>>
            [] OTHER -> UNCHANGED <<sco, flg, bad>>
Spec == Init /\ [][Step]_vars
Report == (bad # "") => PrintT(<<"V", tid, bad, l - 1>>)
=============================================================================
