------------------------------- MODULE ObsC16 -------------------------------
(* C16 - collect()/first() give the right results at the right time and     *)
(*       abort the rest.  One call per trace (event b(flow) carries it).    *)
EXTENDS ObsBase, FlowSem
VARIABLES tid, l, st, bad
vars == <<tid, l, st, bad>>
\* st = [on, t0, op, acts, k, cons, ys (values yielded), yt (their times), ended, started (workers)]
Init == /\ tid \in 1..N /\ l = 1 /\ bad = ""
        /\ st = [on |-> FALSE, t0 |-> 0, op |-> "", acts |-> <<>>, k |-> 0, cons |-> "", ys |-> <<>>, yt |-> <<>>,
                 ended |-> FALSE, started |-> {}]
Fail(c) == bad' = c /\ UNCHANGED st
ExcOf(i) == <<"exc", 1000 + i, "Key">>
FailExcs(acts) == [j \in 1..Len(FailNow(acts)) |-> ExcOf(FailNow(acts)[j])]
\* the failure is raised: the activity's own exception, bare or as the only children of a Concurrent
RightFailure(acts, x) == \/ x = <<"conc", FailExcs(acts)>>
                         \/ (Len(FailNow(acts)) = 1 /\ x = FailExcs(acts)[1])
                         \* several failures in one time step: the abort may cut in between them
                         \/ (x[1] = "conc" /\ Len(x[2]) >= 1 /\ IsPrefix(x[2], FailExcs(acts)))
MaxOf(x, y) == IF x > y THEN x ELSE y
Step ==
  /\ l <= Len(Traces[tid]) /\ bad = ""
  /\ l' = l + 1 /\ UNCHANGED tid
  /\ LET e == Traces[tid][l] op == F(e, "op", "") t == F(e, "t", 0) acts == st.acts n == Len(acts)
         want == Want(acts, st.k) ny == Len(st.ys) IN
     CASE e.e = "b" /\ op = "flow" ->
            st' = [st EXCEPT !.on = TRUE, !.t0 = t, !.op = e.fop, !.acts = e.acts, !.k = e.k, !.cons = e.cons]
            /\ UNCHANGED bad
       [] e.e \in {"ws", "we"} ->
            IF st.ended THEN Fail("C16.loser_ran_after")
            ELSE IF st.op = "first" /\ st.k # 99 /\ st.k > n THEN Fail("C16.count_error")   \* nothing may start
            ELSE IF e.e = "we" /\ t # st.t0 + acts[e.w].d THEN Fail("C16.worker_time")
            ELSE st' = [st EXCEPT !.started = @ \cup {e.w}] /\ UNCHANGED bad
       [] e.e = "y" ->
            LET ok == OkOrder(acts) j == ny + 1 IN
            IF j > Len(ok) \/ e.v # Result(ok[j]) THEN Fail("C16.first_order")
            ELSE IF j > want THEN Fail("C16.first_too_many")
            ELSE IF st.cons # "slow" /\ t # st.t0 + acts[ok[j]].d THEN Fail("C16.first_time")
            ELSE IF st.cons = "slow" /\ t # MaxOf(st.t0 + acts[ok[j]].d, IF ny = 0 THEN 0 ELSE st.yt[ny] + 1)
                 THEN Fail("C16.first_time")
            ELSE st' = [st EXCEPT !.ys = Append(@, e.v), !.yt = Append(@, t)] /\ UNCHANGED bad
       [] e.e = "r" /\ op = "flow" /\ st.op = "collect" ->
            IF ~CollectOk(acts) THEN Fail("C16.collect_swallowed_failure")
            ELSE IF e.v # CollectValue(acts) THEN Fail("C16.collect_result")
            ELSE IF t # st.t0 + CollectTime(acts) THEN Fail("C16.collect_time")
            ELSE st' = [st EXCEPT !.ended = TRUE] /\ UNCHANGED bad
       [] e.e = "x" /\ op = "flow" /\ st.op = "collect" ->
            IF CollectOk(acts) THEN Fail("C16.collect_spurious_failure")
            ELSE IF t # st.t0 + TFail(acts) THEN Fail("C16.collect_time")
            ELSE IF ~RightFailure(acts, e.exc) THEN Fail("C16.collect_failure_content")
            ELSE st' = [st EXCEPT !.ended = TRUE] /\ UNCHANGED bad
       [] e.e = "r" /\ op = "flow" /\ st.op = "first" ->
            IF st.k # 99 /\ st.k > n THEN Fail("C16.count_error")
            ELSE IF st.cons = "break1" THEN st' = [st EXCEPT !.ended = TRUE] /\ UNCHANGED bad
            ELSE IF Fails(acts) = {} /\ ny # Min({want, n}) THEN Fail("C16.first_count")
            ELSE IF Fails(acts) # {} /\ (ny # want \/ (ny > 0 /\ TFail(acts) < st.yt[ny] - st.t0 /\ st.cons # "slow"))
                 THEN Fail("C16.first_swallowed_failure")
            ELSE st' = [st EXCEPT !.ended = TRUE] /\ UNCHANGED bad
       [] e.e = "x" /\ op = "flow" /\ st.op = "first" ->
            IF st.k # 99 /\ st.k > n
            THEN (IF e.exc[1] = "other" /\ e.exc[2] = "ValueError" THEN st' = [st EXCEPT !.ended = TRUE] /\ UNCHANGED bad
                  ELSE Fail("C16.count_error"))
            ELSE IF Fails(acts) = {} THEN Fail("C16.first_spurious_failure")
            ELSE IF ~RightFailure(acts, e.exc) THEN Fail("C16.first_failure_content")
            ELSE IF st.cons # "slow" /\ t # st.t0 + TFail(acts) THEN Fail("C16.first_time")
            ELSE IF st.cons # "slow" /\ ny < Min({want, Len(SureBeforeFail(acts))}) THEN Fail("C16.first_count")
            ELSE st' = [st EXCEPT !.ended = TRUE] /\ UNCHANGED bad
       [] e.e = "u" /\ op = "flow" ->
            \* the caller is cancelled / closed: fine; a private signal of the library reaching the caller is not
            \* (the interrupt of an until-block around the call is the caller's own and passes through the call)
            IF e.exc[1] \in {"cs", "ci", "wk"} /\ ~(st.cons \in {"until1", "until0"} /\ e.exc[1] = "ci") THEN Fail("C16.internal_signal_escaped")
            ELSE IF st.cons = "until1" /\ t # st.t0 + 1 THEN Fail("C16.abort_time")
            \* an interrupt that was in flight when the call was made strikes at its first suspension: in that time step
            ELSE IF st.cons \in {"until0", "cancel0"} /\ t # st.t0 THEN Fail("C16.abort_time")
            ELSE st' = [st EXCEPT !.ended = TRUE] /\ UNCHANGED bad
       [] e.e = "fin" ->
            IF e.out.k = "exc" /\ e.out.internal THEN Fail("C16.run_failed")
            ELSE IF e.out.k = "livelock" THEN Fail("C16.run_failed")
            ELSE IF e.ok /\ st.on /\ ~st.ended THEN Fail("C16.never_finished")
            ELSE UNCHANGED <<st, bad>>
       [] OTHER -> UNCHANGED <<st, bad>>
Spec == Init /\ [][Step]_vars
Report == (bad # "") => PrintT(<<"V", tid, bad, l - 1>>)
=============================================================================
