------------------------------ MODULE USimRef ------------------------------
(* Refinement: the operational specification USim implements the abstract  *)
(* lock LockAbs for every client lock and every queue read mutex, under the *)
(* mapping  owner <- lock[l].owner, depth <- lock[l].depth,                 *)
(*          queue <- the activities subscribed to the lock's notification,  *)
(*                   oldest first.                                          *)
(* TLC checks  Spec => LA(l)!Spec  (every step of USim is a step of LockAbs *)
(* or leaves the lock unchanged) together with the action properties that   *)
(* state FIFO hand-off.                                                     *)
EXTENDS USimProps
QueueOf(l) == LET ws == WaitersOf(subs, NLock(l)) IN [i \in 1..Len(ws) |-> ws[i].w]
LA(l) == INSTANCE LockAbs WITH Procs <- Acts, owner <- lock[l].owner, depth <- lock[l].depth, queue <- QueueOf(l)
LockRefines1 == LA(1)!Spec
LockFifo1 == LA(1)!FifoHandOff
LockOrder1 == LA(1)!OrderKept
LockInv == \A l \in AllLocks : LA(l)!FreeWhenUnused /\ LA(l)!OwnerNotQueued /\ LA(l)!NoDup
\* (the read mutex of queue 1 is lock NLocks + 1)
MutexRefines1 == LA(NLocks + 1)!Spec

\* Queue 1 implements the abstract queue QueueAbs: the receivers are the owner of the read mutex followed by the
\* activities waiting for it; `got` is a ghost field of the model (the item handed out last).  (Claimed for
\* configurations with one queue and no channel: items are numbered by one counter.)
RecvOf(q) == LET m == Mutex(q) IN IF lock[m].owner = 0 THEN <<>> ELSE <<lock[m].owner>> \o QueueOf(m)
QA(q) == INSTANCE QueueAbs WITH Procs <- Acts, buf <- obj.q[q].buf, closed <- obj.q[q].closed, recv <- RecvOf(q),
                                nput <- cnt.item, last <- obj.q[q].got
QueueRefines1 == QA(1)!Spec
QueueHead1 == QA(1)!HeadOnly
QueueOrder1 == QA(1)!RecvOrder
QueueClosed1 == QA(1)!ClosedForGood
QueueInv == QA(1)!Exact /\ QA(1)!NoDupRecv

\* Channel 1 implements the abstract broadcast channel ChanAbs (claimed for configurations with one channel and no
\* queue: messages are numbered by one counter).
AppendAllF(bs, v) == [j \in DOMAIN bs |-> [cid |-> bs[j].cid, items |-> Append(bs[j].items, v)]]
CA(c) == INSTANCE ChanAbs WITH AppendAll <- AppendAllF, bufs <- obj.ch[c].bufs, closed <- obj.ch[c].closed, nsent <- cnt.item, ncons <- cnt.cons
ChanRefines1 == CA(1)!Spec
ChanHead1 == CA(1)!HeadOnly
ChanBroadcast1 == CA(1)!Broadcast
ChanOrder1 == CA(1)!OrderKept
ChanClosed1 == CA(1)!ClosedForGood
ChanInv == CA(1)!Exact /\ CA(1)!Distinct

\* Supply 1 implements the abstract ledger ResAbs: `out` is what borrow blocks in progress and scheduled give-back
\* helpers account for (OutOf).  Every step of USim is a Take / Give / Change / Forfeit of the ledger or leaves it alone;
\* on configurations without interrupts no step is a Forfeit, without rchange the sum level + out is constant.
\* (the ledger is computed once per state: the properties are written over LET-bound values)
RA == INSTANCE ResAbs WITH level <- obj.pool[1].level, out <- OutOf(1)
ResStep(Rel(_, _, _, _)) == LET l == obj.pool[1].level  o == OutOf(1)  l2 == obj'.pool[1].level  o2 == OutOf(1)' IN
                            (l2 # l \/ o2 # o) => Rel(l, o, l2, o2)
ResRefines1 == [][ResStep(RA!StepRel)]_vars
NoForfeitRel(l, o, l2, o2) == o2 # o => RA!Plus(l2, o2) = RA!Plus(l, o)
ResNoForfeit1 == [][ResStep(NoForfeitRel)]_vars
ConservedRel(l, o, l2, o2) == RA!Plus(l2, o2) = RA!Plus(l, o)
ResConserved1 == [][ResStep(ConservedRel)]_vars
ResInv == RA!NonNegative
=============================================================================
