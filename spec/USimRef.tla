------------------------------ MODULE USimRef ------------------------------
(* Refinement: the operational specification USim implements the abstract  *)
(* lock LockAbs for every client lock and every queue read mutex, under the *)
(* mapping  owner <- lock[l].owner, depth <- lock[l].depth,                 *)
(*          queue <- the activities subscribed to the lock's notification,  *)
(*                   oldest first.                                          *)
(* TLC checks  Spec => LA(l)!Spec  (every step of USim is a step of LockAbs *)
(* or leaves the lock unchanged) together with the action properties that   *)
(* state FIFO hand-off.                                                     *)
EXTENDS USimProps
QueueOf(l) == LET ws == WaitersOf(subs, NLock(l)) IN [i \in 1..Len(ws) |-> ws[i].w]
LA(l) == INSTANCE LockAbs WITH Procs <- Acts, owner <- lock[l].owner, depth <- lock[l].depth, queue <- QueueOf(l)
LockRefines1 == LA(1)!Spec
LockFifo1 == LA(1)!FifoHandOff
LockOrder1 == LA(1)!OrderKept
LockInv == \A l \in AllLocks : LA(l)!FreeWhenUnused /\ LA(l)!OwnerNotQueued /\ LA(l)!NoDup
\* (the read mutex of queue 1 is lock NLocks + 1)
MutexRefines1 == LA(NLocks + 1)!Spec
=============================================================================
