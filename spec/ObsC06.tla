------------------------------- MODULE ObsC06 -------------------------------
(* C06 - Task lifecycle: forward-only status, stable result, precise cancel *)
EXTENDS ObsBase
Ids == 1..16
VARIABLES tid, l, tsk, sco, now, anycancel, bad, flg, wt
vars == <<tid, l, tsk, sco, now, anycancel, bad, flg, wt>>
\* flg: mirror of the flags;  wt: awaits of tasks in progress ([a, k])
\* tsk[k] = [s, started, ended, how, exc, rank, res, pre, pend]
\*   rank: highest status rank seen (0 none,1 created,2 running,3 final) with final name in `fin`
\*   res: outcome handed to awaiters (<<>> unknown, <<"ok">>, or the exception)
\*   pre: cancelled before any of its code ran     pend: time of a cancel() while suspended, or -1
NoTask == [s |-> 0, started |-> FALSE, ended |-> FALSE, how |-> "", exc |-> <<>>, rank |-> 0, fin |-> "",
           res |-> <<>>, pre |-> FALSE, pend |-> 0, haspend |-> FALSE, tstart |-> 0, d0 |-> FALSE, sawct |-> FALSE, asleep |-> 0, must |-> FALSE, blk |-> 0]
NoScope == [owner |-> 0, kind |-> "", cause |-> FALSE]
Init == /\ tid \in 1..N /\ l = 1 /\ bad = "" /\ now = 0 /\ anycancel = FALSE /\ flg = [f \in 1..4 |-> FALSE] /\ wt = {}
        /\ tsk = [k \in Ids |-> NoTask] /\ sco = [s \in Ids |-> NoScope]
Rank(v) == IF v = "created" THEN 1 ELSE IF v = "running" THEN 2 ELSE 3
Fail(c) == bad' = c /\ UNCHANGED <<tsk, sco>>
\* what awaiters must get, given how the task's own code ended
Expected(k) == IF tsk[k].how = "ok" THEN <<"ok">>
               ELSE IF tsk[k].how = "cancelled" THEN <<"tcancelled", k>>
               ELSE IF tsk[k].how = "closed" THEN <<"tclosed", k>>
               ELSE tsk[k].exc
Step ==
  /\ l <= Len(Traces[tid]) /\ bad = ""
  /\ l' = l + 1 /\ UNCHANGED tid
  /\ LET e == Traces[tid][l] a == F(e, "a", 0) op == F(e, "op", "") t == F(e, "t", now)
         late == {k \in Ids : tsk[k].haspend /\ ~tsk[k].ended /\ tsk[k].pend < t} IN
     \* (haspend is cleared as soon as the cancellation has been raised inside the task: see the "u"/"g" cases)
     /\ now' = t
     /\ anycancel' = (anycancel \/ (e.e = "b" /\ op = "cancel"))
     /\ flg' = IF e.e = "b" /\ op = "fset" /\ e.f \in 1..4 THEN [flg EXCEPT ![e.f] = e.v] ELSE flg
     /\ wt' = IF e.e = "b" /\ op = "await_t" THEN wt \cup {[a |-> a, k |-> e.k]}
              ELSE IF e.e \in {"r", "x", "u"} /\ op = "await_t" THEN {w \in wt : w.a # a}
              ELSE IF e.e = "end" THEN {w \in wt : w.a # a} ELSE wt
     /\ IF e.e = "fin"
        THEN \* cancelling must never take the whole simulation down
             IF anycancel /\ e.out.k = "exc" /\ e.out.internal THEN Fail("C06.cancel_broke_run")
             ELSE IF e.ok /\ \E k \in Ids : tsk[k].haspend /\ ~tsk[k].ended THEN Fail("C06.cancel_not_delivered")
             \* every awaiter of a task that is done (ended, or cancelled before it started) has been resumed
             ELSE IF e.ok /\ \E w \in wt : w.k \in Ids /\ (tsk[w.k].ended \/ tsk[w.k].pre) THEN Fail("C06.awaiter_left_waiting")
             ELSE UNCHANGED <<tsk, sco, bad>>
        ELSE IF late # {} THEN Fail("C06.cancel_not_prompt")
        ELSE IF t > now /\ \E w \in wt : w.k \in Ids /\ (tsk[w.k].ended \/ tsk[w.k].pre) THEN Fail("C06.awaiter_left_waiting")
        \* a task that certainly was not runnable when it was cancelled cannot return normally from that wait
        ELSE IF a \in Ids /\ tsk[a].haspend /\ tsk[a].must /\ e.e = "r" /\ op \in {"sleep", "await_f"}
             THEN Fail("C06.resumed_past_cancellation")
        ELSE IF a \in Ids /\ tsk[a].pre /\ e.e \in {"b", "r", "x", "p", "u", "end"} THEN Fail("C06.ran_after_precancel")
        ELSE
        LET \* a scope block that has been left has no child left: children that never started were closed silently
            \* (no code of theirs ran, so there is no event of their own); a later cancel() finds them finished
            left == IF e.e \in {"r", "x", "u"} /\ F(e, "blk", "") = "scope" /\ op \in {"leave", "body"} THEN e.id ELSE 0
            tkc == IF left = 0 THEN tsk
                   ELSE [k \in Ids |-> IF tsk[k].s = left /\ ~tsk[k].ended /\ ~tsk[k].started /\ ~tsk[k].pre
                                        THEN [tsk[k] EXCEPT !.ended = TRUE, !.how = "closed",
                                                            !.res = IF @ = <<>> THEN <<"tclosed", k>> ELSE @]
                                        ELSE tsk[k]]
            tk0 == IF a \in Ids /\ tsk[a].s # 0 THEN [tkc EXCEPT ![a].started = TRUE] ELSE tkc
            \* asleep: the date until which the task sleeps (it cannot run before that date on its own)
            tk1 == IF a \in Ids /\ tsk[a].s # 0 /\ e.e = "b" /\ op = "sleep" THEN [tk0 EXCEPT ![a].asleep = t + e.d]
                   ELSE IF a \in Ids /\ tsk[a].s # 0 /\ e.e \in {"r", "x", "u"} /\ op = "sleep" THEN [tk0 EXCEPT ![a].asleep = 0]
                   \* blk: the flag whose change the task is waiting for (nobody has set it accordingly since)
                   ELSE IF a \in Ids /\ tsk[a].s # 0 /\ e.e = "b" /\ op = "await_f" /\ e.f \in 1..4 /\ flg[e.f] # e.v
                        THEN [tk0 EXCEPT ![a].blk = e.f]
                   ELSE IF a \in Ids /\ tsk[a].s # 0 /\ e.e \in {"r", "x", "u"} /\ op = "await_f" THEN [tk0 EXCEPT ![a].blk = 0]
                   ELSE IF e.e = "b" /\ op = "fset"
                        THEN [k \in Ids |-> IF tk0[k].blk = e.f THEN [tk0[k] EXCEPT !.blk = 0] ELSE tk0[k]]
                   ELSE tk0 IN
        CASE e.e = "b" /\ op = "open" ->
               /\ sco' = [sco EXCEPT ![e.s] = [owner |-> a, kind |-> e.kind, cause |-> FALSE]] /\ tsk' = tk1 /\ UNCHANGED bad
          [] e.e = "b" /\ op = "do" /\ e.k # 0 ->
               /\ tsk' = [tk1 EXCEPT ![e.k] = [NoTask EXCEPT !.s = e.s, !.tstart = t + e.d, !.d0 = (e.d = 0)]] /\ UNCHANGED <<sco, bad>>
          [] e.e = "b" /\ op = "raise" ->
               \* a raise in the owner's code is a legitimate cause for all scopes it has open
               /\ sco' = [s \in Ids |-> IF sco[s].owner = a THEN [sco[s] EXCEPT !.cause = TRUE] ELSE sco[s]]
               /\ tsk' = tk1 /\ UNCHANGED bad
          [] e.e = "b" /\ op = "cancel" ->
               LET k == e.k IN
               /\ tsk' = IF tsk[k].ended \/ tsk[k].res # <<>> \/ tsk[k].pre THEN tk1
                         \* "has not started": none of its code ran and its start date is still ahead
                         \* (a delayed task cancelled IN the time step of its start date races with its start)
                         ELSE IF ~tk1[k].started /\ (t < tsk[k].tstart \/ tsk[k].d0)
                              \* (a task without start delay is still CREATED: its outcome is TaskCancelled at once; a
                              \* delayed task is already suspended in its start delay: the cancellation is delivered
                              \* later in this time step and a forced close can still overtake it - the outcome is then
                              \* whatever the awaiters are told first, TaskCancelled or TaskClosed)
                              THEN [tk1 EXCEPT ![k].pre = TRUE, ![k].res = IF tsk[k].d0 THEN <<"tcancelled", k>> ELSE @]
                         ELSE IF ~tk1[k].started THEN tk1
                         ELSE IF tsk[k].haspend THEN tk1
                         \* a task that sleeps beyond now cannot end on its own in this time step: it must end cancelled
                         ELSE [tk1 EXCEPT ![k].pend = t, ![k].haspend = TRUE, ![k].must = ((tsk[k].asleep > t \/ tsk[k].blk # 0) /\ k # a)]
               /\ UNCHANGED <<sco, bad>>
          [] e.e = "end" /\ a \in Ids /\ tsk[a].s # 0 ->
               LET k == a
                   tk2 == [tsk EXCEPT ![k].ended = TRUE, ![k].how = e.how, ![k].exc = e.exc, ![k].started = TRUE]
                   exp == IF e.how = "ok" THEN <<"ok">> ELSE IF e.how = "cancelled" THEN <<"tcancelled", k>>
                          ELSE IF e.how = "closed" THEN <<"tclosed", k>> ELSE e.exc IN
               \* (a clean-up handler that raises while the task is closed reports a second, final end)
               IF tsk[k].ended /\ ~(tsk[k].how = "closed" /\ e.how = "failed") THEN Fail("C06.ended_twice")
               \* once its cancellation was raised inside it, the task ends cancelled (only a privileged failure or a forced close may override)
               ELSE IF (tsk[k].sawct \/ tsk[k].must) /\ e.how \notin {"cancelled", "closed"}
                       /\ ~(e.how = "failed" /\ e.exc # <<>> /\ e.exc[1] = "exc" /\ e.exc[3] \in {"Assert", "AssertSub"})
                    THEN Fail("C06.cancellation_lost")
               ELSE IF tsk[k].res # <<>> /\ tsk[k].res # exp /\ ~(e.how = "closed" /\ tsk[k].res[1] = "tclosed")
                    THEN Fail("C06.result_changed")
               ELSE /\ tsk' = tk2
                    /\ sco' = IF e.how = "failed" THEN [sco EXCEPT ![tsk[k].s].cause = TRUE] ELSE sco
                    /\ UNCHANGED bad
          [] e.e \in {"r", "x"} /\ op = "await_t" ->
               \* an awaiter of task k received a value / exception
               LET k == e.k
                   got == IF e.e = "r" THEN <<"ok">> ELSE e.exc IN
               IF tsk[k].res # <<>> /\ tsk[k].res # got THEN Fail("C06.awaiters_disagree")
               \* a task cancelled before it started can only be reported cancelled (or closed, see above)
               ELSE IF tsk[k].pre /\ got[1] \notin {"tcancelled", "tclosed"} THEN Fail("C06.result_mismatch")
               ELSE IF tsk[k].ended /\ got # Expected(k) /\ ~(tsk[k].how = "failed" /\ got = tsk[k].exc)
                    THEN Fail("C06.result_mismatch")
               ELSE IF ~tsk[k].ended /\ ~tsk[k].pre /\ tsk[k].started /\ got[1] # "tclosed"
                    THEN Fail("C06.result_before_done")
               ELSE tsk' = [tk1 EXCEPT ![k].res = got] /\ UNCHANGED <<sco, bad>>
          [] e.e = "p" /\ op = "status" ->
               LET k == e.k r == Rank(e.v) IN
               IF r < tsk[k].rank THEN Fail("C06.status_backwards")
               ELSE IF tsk[k].rank = 3 /\ tsk[k].fin # e.v THEN Fail("C06.final_status_changed")
               ELSE IF r = 1 /\ tsk[k].started THEN Fail("C06.created_after_start")
               ELSE IF r < 3 /\ tsk[k].ended /\ tsk[k].how # "closed" THEN Fail("C06.not_final_after_end")
               ELSE IF r = 3 /\ tsk[k].ended /\ e.v # (IF tsk[k].how = "ok" THEN "success" ELSE IF tsk[k].how = "failed" THEN "failed" ELSE "cancelled")
                    THEN Fail("C06.status_mismatch")
               ELSE tsk' = [tk1 EXCEPT ![k].rank = r, ![k].fin = IF r = 3 THEN e.v ELSE @] /\ UNCHANGED <<sco, bad>>
          [] e.e = "u" /\ F(e, "blk", "") = "scope" ->
               \* a foreign signal leaving a scope block is a cause for the enclosing scopes of the same owner
               /\ sco' = [s \in Ids |-> IF sco[s].owner = a THEN [sco[s] EXCEPT !.cause = TRUE] ELSE sco[s]]
               /\ tsk' = tk1 /\ UNCHANGED bad
          [] e.e \in {"r", "x"} /\ F(e, "blk", "") = "scope" /\ op \in {"leave", "body"} ->
               \* a plain Scope that is not left gracefully needs a cause other than a cancelled child
               IF sco[e.id].kind = "scope" /\ ~(e.e = "r" /\ op = "leave") /\ ~sco[e.id].cause
               THEN Fail("C06.cancel_hit_parent") ELSE tsk' = tk1 /\ UNCHANGED <<sco, bad>>
          [] e.e = "u" /\ a \in Ids /\ e.exc # <<>> /\ e.exc[1] = "ct" /\ e.exc[2] = a /\ F(e, "blk", "") # "scope" ->
               \* the cancellation has been raised inside the task at its suspension point
               /\ sco' = [s \in Ids |-> IF sco[s].owner = a THEN [sco[s] EXCEPT !.cause = TRUE] ELSE sco[s]]
               /\ tsk' = [tk1 EXCEPT ![a].sawct = TRUE, ![a].haspend = FALSE] /\ UNCHANGED bad
          [] e.e = "g" /\ a \in Ids ->
               \* the task's handler caught the cancellation and shuts down gracefully
               /\ tsk' = [tk1 EXCEPT ![a].sawct = TRUE, ![a].haspend = FALSE] /\ UNCHANGED <<sco, bad>>
          [] e.e = "u" /\ a \in Ids /\ e.exc # <<>> /\ e.exc[1] \in {"ct", "genexit", "cs", "ci"} ->
               \* a signal passing through the owner's code is a cause for its open scopes
               /\ sco' = [s \in Ids |-> IF sco[s].owner = a THEN [sco[s] EXCEPT !.cause = TRUE] ELSE sco[s]]
               /\ tsk' = tk1 /\ UNCHANGED bad
          [] OTHER -> tsk' = tk1 /\ UNCHANGED <<sco, bad>>
Spec == Init /\ [][Step]_vars
Report == (bad # "") => PrintT(<<"V", tid, bad, l - 1>>)
=============================================================================
