------------------------------- MODULE ObsC18 -------------------------------
(* C18 - SimPy layer: events fire once; processes resume with the right     *)
(*       value and time.  The trace starts with the script (`sc`).          *)
EXTENDS Naturals, Sequences, FiniteSets, TLC, Json, IOUtils
Batch == JsonDeserialize(IOEnv.TRACE_FILE)
Traces == Batch.traces
N == Len(Traces)
F(e, f, d) == IF f \in DOMAIN e THEN e[f] ELSE d
Ps == 1..9       \* 9 = a native usim activity waiting for an event (embedded runs)
Es == 1..2
VARIABLES tid, l, ev, wait, pend, intq, until, bad
vars == <<tid, l, ev, wait, pend, intq, until, bad>>
NoEv == [trig |-> FALSE, t |-> 0, ok |-> TRUE, v |-> 0, cb |-> 0]
NoWait == [on |-> FALSE, t |-> 0, k |-> <<"none">>, must |-> FALSE]
Init == /\ tid \in 1..N /\ l = 1 /\ bad = "" /\ until = 0
        /\ ev = [e \in Es |-> NoEv] /\ wait = [p \in Ps |-> NoWait]
        /\ pend = [p \in Ps |-> [done |-> FALSE, t |-> 0, v |-> 0]] /\ intq = [p \in Ps |-> <<>>]
Fail(c) == bad' = c /\ UNCHANGED <<ev, wait, pend, intq>>
Max2(x, y) == IF x > y THEN x ELSE y
Min2(x, y) == IF x < y THEN x ELSE y
\* expected completion of the wait w (a step <<kind, ...>> begun at w.t): [known, t, ok, v]
Exp(w) ==
  LET k == w.k IN
  CASE k[1] = "to" -> [known |-> TRUE, t |-> w.t + k[2], ok |-> TRUE, v |-> <<k[3]>>, amb |-> FALSE]
    [] k[1] = "native" -> [known |-> TRUE, t |-> w.t + k[2], ok |-> TRUE, v |-> <<0>>, amb |-> FALSE]
    [] k[1] = "wait" -> [known |-> ev[k[2]].trig, t |-> Max2(w.t, ev[k[2]].t), ok |-> ev[k[2]].ok, v |-> <<ev[k[2]].v>>, amb |-> FALSE]
    [] k[1] = "proc" -> [known |-> pend[k[2]].done, t |-> Max2(w.t, pend[k[2]].t), ok |-> TRUE, v |-> <<pend[k[2]].v>>, amb |-> FALSE]
    [] k[1] = "all" -> [known |-> TRUE, t |-> w.t + Max2(k[2], k[3]), ok |-> TRUE, v |-> <<Min2(k[2], k[3]) + 5, Max2(k[2], k[3]) + 5>>, amb |-> FALSE]
    \* the same event listed twice in one condition
    [] k[1] = "dall" -> [known |-> TRUE, t |-> w.t + Max2(k[2], k[3]), ok |-> TRUE, amb |-> FALSE,
                        v |-> IF k[2] <= k[3] THEN <<k[2] + 5, k[2] + 5, k[3] + 5>> ELSE <<k[3] + 5, k[2] + 5, k[2] + 5>>]
    [] k[1] = "dwait" -> [known |-> ev[k[2]].trig, t |-> Max2(w.t, ev[k[2]].t), ok |-> ev[k[2]].ok, v |-> <<ev[k[2]].v, ev[k[2]].v>>, amb |-> FALSE]
    [] k[1] = "nest" ->     \* (timeout(a) | timeout(b)) & timeout(c)
         [known |-> TRUE, t |-> w.t + Max2(Min2(k[2], k[3]), k[4]), ok |-> TRUE, v |-> <<>>, amb |-> FALSE]
    [] k[1] = "nest2" ->    \* (timeout(a) & timeout(b)) | timeout(c)
         [known |-> TRUE, t |-> w.t + Min2(Max2(k[2], k[3]), k[4]), ok |-> TRUE, v |-> <<>>, amb |-> FALSE]
    [] k[1] = "any" ->
         LET te == Max2(w.t, ev[k[3]].t) tt == w.t + k[2] IN
         IF ev[k[3]].trig /\ te = tt THEN [known |-> TRUE, t |-> te, ok |-> TRUE, v |-> <<>>, amb |-> TRUE]   \* a tie
         ELSE IF ev[k[3]].trig /\ te <= tt /\ ~ev[k[3]].ok THEN [known |-> TRUE, t |-> te, ok |-> FALSE, v |-> <<>>, amb |-> FALSE]
         ELSE IF ev[k[3]].trig /\ te <= tt THEN [known |-> TRUE, t |-> te, ok |-> TRUE, v |-> <<>>, amb |-> FALSE]
         ELSE [known |-> TRUE, t |-> tt, ok |-> TRUE, v |-> <<>>, amb |-> FALSE]
    [] OTHER -> [known |-> FALSE, t |-> 0, ok |-> TRUE, v |-> <<>>, amb |-> FALSE]
SeqSet(q) == {q[i] : i \in 1..Len(q)}
Members(k, v) ==
  LET T == Max2(Min2(k[2], k[3]), k[4])  ds == {k[2], k[3], k[4]} IN
  /\ {d + 5 : d \in {d \in ds : d < T}} \subseteq SeqSet(v)
  /\ SeqSet(v) \subseteq {d + 5 : d \in {d \in ds : d <= T}}
  /\ (k[4] + 5) \in SeqSet(v)
Members2(k, v) ==
  LET T == Min2(Max2(k[2], k[3]), k[4])  ds == {k[2], k[3], k[4]} IN
  /\ {d + 5 : d \in {d \in ds : d < T}} \subseteq SeqSet(v)
  /\ SeqSet(v) \subseteq {d + 5 : d \in {d \in ds : d <= T}}
Step ==
  /\ l <= Len(Traces[tid]) /\ bad = ""
  /\ l' = l + 1 /\ UNCHANGED tid
  /\ LET e == Traces[tid][l] p == F(e, "p", 1) t == F(e, "t", 0) IN
     \* (uz: run(until=0) at time 0 - a date that happens to be falsy; kept apart from 0 = "no limit" as -1)
     /\ until' = IF e.e = "sc" THEN (IF F(e, "uz", FALSE) THEN 0 - 1 ELSE e.until) ELSE until
     /\ IF e.e \in {"y", "res", "act", "cb", "pend"} /\ until \in 1..9 /\ t > until THEN Fail("C18.ran_after_until")
        ELSE IF e.e \in {"y", "res", "act", "cb", "pend"} /\ until = 0 - 1 /\ t > 0 THEN Fail("C18.ran_after_until")
        ELSE IF e.e \in {"y", "res", "act", "cb", "pend"} /\ until > 10 /\ ev[until - 10].trig /\ t > ev[until - 10].t
             THEN Fail("C18.ran_after_until")
        ELSE
        CASE e.e = "act" /\ e.kind \in {"succ", "fail"} ->
               LET x == e.tgt IN
               IF ev[x].trig /\ ~e.err THEN Fail("C18.second_trigger_accepted")
               ELSE IF ~ev[x].trig /\ e.err THEN Fail("C18.trigger_refused")
               ELSE IF ev[x].trig THEN UNCHANGED <<ev, wait, pend, intq, bad>>
               ELSE ev' = [ev EXCEPT ![x] = [trig |-> TRUE, t |-> t, ok |-> e.kind = "succ", v |-> F(e, "v", 0), cb |-> 0]]
                    /\ UNCHANGED <<wait, pend, intq, bad>>
          [] e.e = "act" /\ e.kind = "intr" ->
               \* ignored for a finished process; otherwise one Interrupt per call, in call order
               IF pend[e.tgt].done THEN UNCHANGED <<ev, wait, pend, intq, bad>>
               ELSE intq' = [intq EXCEPT ![e.tgt] = Append(@, [c |-> e.v, t |-> t])] /\ UNCHANGED <<ev, wait, pend, bad>>
          [] e.e = "cb" ->
               IF ev[e.ev].cb >= 1 THEN Fail("C18.callback_twice")
               ELSE IF ~ev[e.ev].trig \/ t # ev[e.ev].t THEN Fail("C18.callback_time")
               ELSE ev' = [ev EXCEPT ![e.ev].cb = @ + 1] /\ UNCHANGED <<wait, pend, intq, bad>>
          [] e.e = "y" ->
               \* an interrupt that is already queued must be raised at this very yield (one per yield, in call order)
               wait' = [wait EXCEPT ![p] = [on |-> TRUE, t |-> t, k |-> e.k, must |-> intq[p] # <<>>]] /\ UNCHANGED <<ev, pend, intq, bad>>
          [] e.e = "res" /\ e.how = "intr" ->
               IF intq[p] = <<>> THEN Fail("C18.spurious_interrupt")
               ELSE IF Head(intq[p]).c # e.cause THEN Fail("C18.interrupt_order")
               ELSE IF t # Max2(Head(intq[p]).t, wait[p].t) THEN Fail("C18.interrupt_time")
               ELSE /\ intq' = [intq EXCEPT ![p] = Tail(@)] /\ wait' = [wait EXCEPT ![p] = NoWait]
                    /\ UNCHANGED <<ev, pend, bad>>
          [] e.e = "res" ->
               LET x == Exp(wait[p]) IN
               IF ~wait[p].on THEN Fail("C18.resumed_without_wait")
               ELSE IF wait[p].must THEN Fail("C18.interrupt_lost")
               ELSE IF ~x.known THEN Fail("C18.resumed_untriggered")
               ELSE IF t # x.t THEN Fail("C18.resume_time")
               ELSE IF ~x.amb /\ (e.how = "ok") # x.ok THEN Fail("C18.resume_outcome")
               ELSE IF x.ok /\ x.v # <<>> /\ e.v # x.v THEN Fail("C18.resume_value")
               \* a condition exposes exactly the members that have fired by then
               ELSE IF wait[p].k[1] = "nest" /\ ~Members(wait[p].k, e.v) THEN Fail("C18.condition_members")
               ELSE IF wait[p].k[1] = "nest2" /\ ~Members2(wait[p].k, e.v) THEN Fail("C18.condition_members")
               \* an interrupt issued strictly before this time should have cut the wait short
               ELSE IF intq[p] # <<>> /\ Head(intq[p]).t < t THEN Fail("C18.interrupt_lost")
               ELSE wait' = [wait EXCEPT ![p] = NoWait] /\ UNCHANGED <<ev, pend, intq, bad>>
          [] e.e = "pend" ->
               pend' = [pend EXCEPT ![p] = [done |-> TRUE, t |-> t, v |-> e.v]] /\ UNCHANGED <<ev, wait, intq, bad>>
          [] e.e = "run_end" ->
               IF until > 10 /\ ev[until - 10].trig /\ ev[until - 10].ok /\ ~(e.out.k = "ok" /\ e.out.v = ev[until - 10].v)
                    THEN Fail("C18.until_value")
               ELSE IF until > 10 /\ ~ev[until - 10].trig /\ e.out.k = "ok" THEN Fail("C18.until_not_triggered")
               ELSE IF e.out.k = "exc" /\ e.out.cls \notin {"EvFail", "RuntimeError"} THEN Fail("C18.run_failed")
               ELSE IF e.out.k = "exc" /\ e.out.cls = "RuntimeError" /\ ~(until > 10 /\ ~ev[until - 10].trig) THEN Fail("C18.run_failed")
               ELSE IF e.out.k = "ok" /\ ev[1].trig /\ ~ev[1].ok /\ ~e.waiters1 /\ until = 0 /\ ~F(Traces[tid][1], "defuse", FALSE)
                    THEN Fail("C18.unhandled_failure_swallowed")
               \* a failure that a callback of the event has taken care of (defused) does not end the run
               ELSE IF e.out.k = "exc" /\ e.out.cls = "EvFail" /\ F(Traces[tid][1], "defuse", FALSE)
                       /\ ~\E i \in 1..(l - 1) : Traces[tid][i].e = "res" /\ Traces[tid][i].how = "intr"
                    THEN Fail("C18.handled_failure_raised")
               \* a process left waiting for something that has happened
               ELSE IF e.out.k = "ok" /\ until = 0 /\ \E q \in Ps : wait[q].on /\ Exp(wait[q]).known /\ wait[q].k[1] \in {"wait", "proc"}
                    THEN Fail("C18.waiter_not_resumed")
               ELSE UNCHANGED <<ev, wait, pend, intq, bad>>
          [] OTHER -> UNCHANGED <<ev, wait, pend, intq, bad>>
Spec == Init /\ [][Step]_vars
Report == (bad # "") => PrintT(<<"V", tid, bad, l - 1>>)
=============================================================================
