----------------------------- MODULE MC_ChanAbs -----------------------------
(* Apalache wrapper for ChanAbs: IndInv (with `Exact`: the backlog of every *)
(* consumer is the gapless run of the last messages accepted) is inductive, *)
(* i.e. holds for runs of any length, any number of messages and consumers. *)
(*   apalache-mc check --init=Init    --inv=IndInv --length=0 MC_ChanAbs.tla *)
(*   apalache-mc check --init=IndInit --inv=IndInv --length=1 MC_ChanAbs.tla *)
EXTENDS Naturals, Sequences, Apalache
VARIABLES
  \* @type: Seq({cid: Int, items: Seq(Int)});
  bufs,
  \* @type: Bool;
  closed,
  \* @type: Int;
  nsent,
  \* @type: Int;
  ncons
\* @type: (Seq({cid: Int, items: Seq(Int)}), Int) => Seq({cid: Int, items: Seq(Int)});
AppendAllS(bs, v) == LET \* @type: (Seq({cid: Int, items: Seq(Int)}), {cid: Int, items: Seq(Int)}) => Seq({cid: Int, items: Seq(Int)});
                         Step(acc, b) == Append(acc, [cid |-> b.cid, items |-> Append(b.items, v)])
                         \* @type: Seq({cid: Int, items: Seq(Int)});
                         none == <<>> IN
                     ApaFoldSeqLeft(Step, none, bs)
INSTANCE ChanAbs WITH AppendAll <- AppendAllS
IndInit == /\ bufs = Gen(4)
           /\ closed \in BOOLEAN
           /\ nsent \in Nat /\ ncons \in Nat
           /\ IndInv
=============================================================================
