------------------------------ MODULE SimPyOpT ------------------------------
(* Trace validation against the operational specification SimPyOp: a trace *)
(* recorded from the real usim.py layer (harness/simpyev.py) is accepted    *)
(* iff it is a behaviour of SimPyOp - every recorded line is one action of  *)
(* the specification whose guard holds in the state reached so far; steps   *)
(* that are not recorded (a process getting its first turn, the clock       *)
(* moving on) are composed in front of the recorded one.  A rejection names *)
(* the guard that failed.                                                   *)
EXTENDS SimPyOp, Json, IOUtils
Batch == JsonDeserialize(IOEnv.TRACE_FILE)
Traces == Batch.traces
N == Len(Traces)
F(e, f, d) == IF f \in DOMAIN e THEN e[f] ELSE d
VARIABLES tid, l, bad
varsT == <<S, tid, l, bad>>

InitT == /\ tid \in 1..N /\ l = 1 /\ bad = ""
         /\ S = InitStateD(Traces[tid][1].procs, Traces[tid][1].until, F(Traces[tid][1], "defuse", FALSE))

\* a result of composing silent steps: [ok, why, S]
Good(s) == [ok |-> TRUE, why |-> "", S |-> s]
Bad(w, s) == [ok |-> FALSE, why |-> w, S |-> s]
\* the clock moves to t (if it is later than now): only if nothing is left to do, and t is the next date something is due
Adv(s, t) == IF t = s.now THEN Good(s)
             ELSE IF t < s.now THEN Bad("C18.clock_decreased", s)
             ELSE IF s.over THEN Bad("C18.ran_after_end", s)
             ELSE IF Busy(s) THEN Bad("C18.left_behind", s)            \* a due resumption / interrupt / callback was skipped
             ELSE IF MustStop(s) THEN Bad("C18.ran_after_until", s)
             ELSE IF ~G_Advance(s, t) THEN Bad("C18.nothing_due_at_this_time", s)
             ELSE Good(F_Advance(s, t))
\* process p gets its first turn if it has not had it
Started(r, p) == IF ~r.ok THEN r
                 ELSE IF r.S.proc[p].st # "new" THEN r
                 ELSE IF G_Start(r.S, p) THEN Good(F_Start(r.S, p)) ELSE Bad("C18.started_late", r.S)

SeqSet(q) == {q[i] : i \in 1..Len(q)}
\* the value a resumption by its target must carry (<<>>: not determined here)
ValueOK(s, p, v) ==
  LET k == s.proc[p].k  t0 == s.proc[p].t0 IN
  CASE k[1] = "to" -> v = <<k[3]>>
    [] k[1] = "native" -> v = <<0>>
    [] k[1] = "wait" -> v = <<s.ev[k[2]].v>>
    [] k[1] = "proc" -> v = <<10 * k[2]>>
    [] k[1] = "all" -> v = <<Min2(k[2], k[3]) + 5, Max2(k[2], k[3]) + 5>>
    [] k[1] = "dall" -> v = IF k[2] <= k[3] THEN <<k[2] + 5, k[2] + 5, k[3] + 5>> ELSE <<k[3] + 5, k[2] + 5, k[2] + 5>>
    [] k[1] = "dwait" -> v = <<s.ev[k[2]].v, s.ev[k[2]].v>>
    \* a condition exposes exactly the members that have fired by then
    [] k[1] = "nest" -> LET T == Max2(Min2(k[2], k[3]), k[4])  ds == {k[2], k[3], k[4]} IN
         /\ {d + 5 : d \in {d \in ds : d < T}} \subseteq SeqSet(v) /\ SeqSet(v) \subseteq {d + 5 : d \in {d \in ds : d <= T}}
         /\ (k[4] + 5) \in SeqSet(v)
    [] k[1] = "nest2" -> LET T == Min2(Max2(k[2], k[3]), k[4])  ds == {k[2], k[3], k[4]} IN
         /\ {d + 5 : d \in {d \in ds : d < T}} \subseteq SeqSet(v) /\ SeqSet(v) \subseteq {d + 5 : d \in {d \in ds : d <= T}}
    [] k[1] = "any" -> LET e == s.ev[k[3]]  tt == t0 + k[2] IN
         /\ SeqSet(v) \subseteq ({k[2] + 5} \cup {e.v})
         /\ (s.now < tt => v = <<e.v>>)
         /\ ((~e.trig \/ Max2(t0, e.t) > s.now) => v = <<k[2] + 5>>)
    [] OTHER -> TRUE

\* one recorded line
Apply(s, e) ==
  LET p == F(e, "p", 1)
      \* (the clock read after a run may lie beyond its end: the end of a run carries no date of its own)
      r0 == IF e.e # "run_end" THEN Adv(s, F(e, "t", s.now))
            ELSE IF e.out.k = "ok" /\ s.until \in 1..9 /\ s.until > s.now /\ s.out # "exc" /\ ~s.over THEN Adv(s, s.until) ELSE Good(s) IN
  IF ~r0.ok THEN r0
  ELSE IF r0.S.over /\ e.e # "run_end" THEN Bad("C18.ran_after_end", r0.S)
  ELSE
  CASE e.e = "y" ->
         LET r == Started(r0, p) IN
         IF ~r.ok THEN r
         ELSE IF ~G_Yield(r.S, p) \/ StepOf(r.S, p) # e.k THEN Bad("C18.unexpected_yield", r.S)
         ELSE Good(F_Yield(r.S, p))
    [] e.e = "act" ->
         LET r == Started(r0, p) IN
         IF ~r.ok THEN r
         ELSE IF ~G_Act(r.S, p) \/ StepOf(r.S, p)[1] # e.kind THEN Bad("C18.unexpected_step", r.S)
         ELSE IF e.kind \in {"succ", "fail"} /\ ActRefused(r.S, p) /\ ~e.err THEN Bad("C18.second_trigger_accepted", r.S)
         ELSE IF e.kind \in {"succ", "fail"} /\ ~ActRefused(r.S, p) /\ e.err THEN Bad("C18.trigger_refused", r.S)
         ELSE Good(F_Act(r.S, p))
    [] e.e = "res" ->
         LET s1 == r0.S IN
         IF s1.proc[p].st # "wait" \/ s1.running # 0 THEN Bad("C18.resumed_without_wait", s1)
         ELSE IF e.how = "intr" THEN
              (IF s1.proc[p].intq = <<>> THEN Bad("C18.spurious_interrupt", s1)
               ELSE IF Head(s1.proc[p].intq).c # e.cause THEN Bad("C18.interrupt_order", s1)
               ELSE Good(F_ResumeI(s1, p)))
         \* an interrupt was pending at this yield, or had been issued at an earlier time
         ELSE IF CanInterrupt(s1, p) /\ ~CanComplete(s1, p) /\ Exp(s1, p).known /\ Exp(s1, p).t = s1.now THEN Bad("C18.interrupt_lost", s1)
         ELSE IF ~Exp(s1, p).known THEN Bad("C18.resumed_untriggered", s1)
         ELSE IF Exp(s1, p).t # s1.now THEN Bad("C18.resume_time", s1)
         ELSE IF ~Exp(s1, p).amb /\ (e.how = "ok") # Exp(s1, p).ok THEN Bad("C18.resume_outcome", s1)
         ELSE IF e.how = "ok" /\ Exp(s1, p).ok /\ ~ValueOK(s1, p, e.v) THEN Bad("C18.resume_value", s1)
         ELSE IF e.how = "ok" THEN Good([F_ResumeC(s1, p) EXCEPT !.ev = s1.ev])    \* (a tie that went the other way)
         ELSE Good(F_ResumeC(s1, p))
    [] e.e = "cb" ->
         LET s1 == r0.S
             \* did the run end with the event's exception?
             last == Traces[tid][Len(Traces[tid])]
             o == IF last.e = "run_end" /\ last.out.k = "exc" /\ ~s1.ev[e.ev].ok /\ CallbackMay(s1, e.ev, "fail") THEN "fail" ELSE "ok" IN
         IF s1.ev[e.ev].cb >= 1 THEN Bad("C18.callback_twice", s1)
         ELSE IF ~G_Callback(s1, e.ev) THEN Bad("C18.callback_time", s1)
         ELSE IF ~CallbackMay(s1, e.ev, o) THEN
              (IF o = "ok" THEN Bad("C18.unhandled_failure_swallowed", s1) ELSE Bad("C18.run_failed", s1))
         ELSE Good(F_Callback(s1, e.ev, o))
    [] e.e = "pend" ->
         LET r == Started(r0, p) IN
         IF ~r.ok THEN r
         ELSE IF ~G_End(r.S, p) THEN Bad("C18.ended_early", r.S)
         ELSE IF e.v # 10 * p THEN Bad("C18.process_value", r.S)
         ELSE Good(F_End(r.S, p))
    [] e.e = "run_end" ->
         LET s1 == r0.S IN
         IF s1.out = "exc" THEN (IF e.out.k = "exc" THEN Good(F_Stop(s1)) ELSE Bad("C18.unhandled_failure_swallowed", s1))
         \* an abandoned condition failed with its event
         ELSE IF e.out.k = "exc" /\ e.out.cls # "RuntimeError" /\ G_Doom(s1) THEN Good(F_Stop(F_Doom(s1)))
         ELSE IF e.out.k = "ok" /\ s1.doom = "must" /\ s1.until = 0 THEN Bad("C18.unhandled_failure_swallowed", s1)
         ELSE IF e.out.k = "exc" /\ e.out.cls = "RuntimeError" /\ s1.until > 10 /\ ~s1.ev[s1.until - 10].trig /\ G_Stop(s1)
              THEN Good(F_Stop(s1))
         ELSE IF e.out.k = "exc" THEN Bad("C18.run_failed", s1)
         ELSE IF ~G_Stop(s1) THEN
              (IF s1.until \in 1..9 \/ s1.until > 10 THEN Bad("C18.until_not_reached", s1) ELSE Bad("C18.waiter_not_resumed", s1))
         ELSE IF OutOfStop(s1) = "never" THEN Bad("C18.until_not_triggered", s1)
         ELSE IF s1.until > 10 /\ s1.ev[s1.until - 10].ok /\ e.out.v # s1.ev[s1.until - 10].v THEN Bad("C18.until_value", s1)
         ELSE Good(F_Stop(s1))
    [] OTHER -> r0

StepT ==
  /\ l <= Len(Traces[tid]) /\ bad = ""
  /\ l' = l + 1 /\ UNCHANGED tid
  /\ LET r == Apply(S, Traces[tid][l]) IN
     /\ S' = r.S
     /\ bad' = r.why
SpecT == InitT /\ [][StepT]_varsT
Report == (bad # "") => PrintT(<<"V", tid, bad, l - 1>>)
=============================================================================
