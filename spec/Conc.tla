-------------------------------- MODULE Conc --------------------------------
(* Scenario space and algebraic laws of the Concurrent[...] matching rule.  *)
EXTENDS ConcSem, TLC, Json, FiniteSetsExt, SequencesExt
VARIABLES sc
NestedKids == {<<"C", <<P(a)>>>> : a \in Plain \ {"Exception"}} \cup {<<"C", <<P("KeyError"), P("ValueError")>>>>}
Kid == {P(a) : a \in Plain \ {"Exception"}} \cup NestedKids
NestedItems == {<<"C", {P(a)}, FALSE>> : a \in {"LookupError", "KeyError", "ValueError"}} \cup {<<"C", {P("KeyError")}, TRUE>>}
               \cup {<<"C", {}, TRUE>>}       \* Concurrent[(...,)]: no type named, anything allowed
Item == {P(a) : a \in Plain} \cup NestedItems
Init == sc \in [kids : UNION {[1..n -> Kid] : n \in 1..3},
                items : {S \in SUBSET Item : Cardinality(S) \in 0..2},       \* 0: Concurrent[()] and Concurrent[(...,)]
                incl : BOOLEAN]
Next == UNCHANGED sc
Spec == Init /\ [][Next]_sc
M(k, i, inc) == Matches(KidSet(k), i, inc)
\* laws: order and multiplicity of children are irrelevant; `...` only widens; covariance in the items
Permuted == Len(sc.kids) >= 2 =>
   M(sc.kids, sc.items, sc.incl) = M(<<sc.kids[Len(sc.kids)]>> \o SubSeq(sc.kids, 1, Len(sc.kids) - 1), sc.items, sc.incl)
Duplicated == M(sc.kids, sc.items, sc.incl) = M(sc.kids \o <<sc.kids[1]>>, sc.items, sc.incl)
InclusiveWidens == M(sc.kids, sc.items, FALSE) => M(sc.kids, sc.items, TRUE)
ExactSelf == (\A i \in 1..Len(sc.kids) : ~IsNested(sc.kids[i])) => M(sc.kids, KidSet(sc.kids), FALSE)
Covariant == ((\A h \in sc.items : ~IsNested(h)) /\ M(sc.kids, sc.items, sc.incl)) =>
   M(sc.kids, {IF Parent(h[2]) # "" THEN P(Parent(h[2])) ELSE h : h \in sc.items}, sc.incl)
Emit == PrintT(<<"W", ToJson([kids |-> sc.kids, items |-> SetToSeq(sc.items), incl |-> sc.incl])>>)
=============================================================================
