------------------------------- MODULE ObsC12 -------------------------------
(* C12 - Resources are conserved: never negative, never leaked, claims      *)
(*       never wait                                                         *)
EXTENDS ObsBase
Ps == 1..2              \* supplies
VARIABLES tid, l, now, slo, shi, br, taint, nres, unw, bad
vars == <<tid, l, now, slo, shi, br, taint, nres, unw, bad>>
\* slo/shi[p]: bounds on the supply of p (equal unless `set` made it uncertain)
\* br: borrow blocks in progress: [a, p, sh, amt, ph, t, claim]   ph: "acq" | "hold" | "rel" | "relx" (released by helpers)
\* taint[p]: an acquisition / release on p was interrupted by a signal (known finding territory)
Init == /\ tid \in 1..N /\ l = 1 /\ bad = "" /\ now = 0 /\ nres = 0 /\ unw = {}
        /\ slo = [p \in Ps |-> Zero] /\ shi = [p \in Ps |-> Zero] /\ br = <<>> /\ taint = [p \in Ps |-> FALSE]
Fail(c) == bad' = c /\ UNCHANGED <<slo, shi, br, taint>>
Get(s, i) == IF i <= Len(s) THEN s[i] ELSE 0
\* levels and amounts are vectors <<a, b>> over the resource types of a supply (b = 0 throughout for supplies with one
\* type): arithmetic is elementwise, "certainly enough" means enough of EVERY type, "short" means short of SOME type
VGe(x, y) == x[1] >= y[1] /\ x[2] >= y[2]
VLtSome(x, y) == x[1] < y[1] \/ x[2] < y[2]
VGtSome(x, y) == x[1] > y[1] \/ x[2] > y[2]
Amt(e) == <<F(e, "amt", 0), F(e, "amtb", 0)>>
Lv(e) == <<e.v, F(e, "vb", 0)>>
GetV(e, p) == <<Get(e.levels, p), IF "levelsb" \in DOMAIN e THEN Get(e.levelsb, p) ELSE 0>>
RECURSIVE SumAmt(_, _, _)
SumAmt(s, p, phs) == IF s = <<>> THEN Zero
                     ELSE VAdd(IF Head(s).p = p /\ Head(s).ph \in phs THEN Head(s).amt ELSE Zero, SumAmt(Tail(s), p, phs))
Out(p) == SumAmt(br, p, {"acq", "hold", "rel", "relx"})
Held(p) == SumAmt(br, p, {"hold"})
\* a holder may silently have begun to give back (an exception / signal is unwinding it): only the amounts held
\* by the activity that is executing right now are certainly still out
HeldBy(a, p) == SumAmt(SelectSeq(br, LAMBDA y : y.a = a), p, {"hold"})
\* index of the latest block of activity a on pool p in phase ph
Has(a, p, ph) == \E i \in 1..Len(br) : br[i].a = a /\ br[i].p = p /\ br[i].ph = ph
Idx(a, p, ph) == CHOOSE i \in 1..Len(br) : br[i].a = a /\ br[i].p = p /\ br[i].ph = ph
                   /\ \A j \in (i + 1)..Len(br) : ~(br[j].a = a /\ br[j].p = p /\ br[j].ph = ph)
SetPh(i, ph) == [br EXCEPT ![i].ph = ph]
Del(i) == SubSeq(br, 1, i - 1) \o SubSeq(br, i + 1, Len(br))
IsSignal(x) == x # <<>> /\ x[1] \in {"ct", "cs", "ci"}
IsAbort(x) == x # <<>> /\ x[1] \in {"ct", "cs", "ci", "genexit"}   \* hits a transfer in progress
TaintIf(p, c) == IF c /\ p \in Ps /\ p <= nres THEN [taint EXCEPT ![p] = TRUE] ELSE taint
Step ==
  /\ l <= Len(Traces[tid]) /\ bad = ""
  /\ l' = l + 1 /\ UNCHANGED tid
  \* unw: activities in which an exception / cancellation may already be unwinding a borrow block
  /\ unw' = LET e0 == Traces[tid][l] IN
            IF e0.e = "b" /\ F(e0, "op", "") = "raise" THEN unw \cup {e0.a}
            ELSE IF e0.e = "b" /\ F(e0, "op", "") = "cancel" THEN unw \cup {e0.k}
            ELSE IF e0.e = "end" THEN unw \ {e0.a} ELSE unw
  /\ nres' = IF Traces[tid][l].e = "init" THEN Len(Traces[tid][l].res) ELSE nres
  /\ LET Sup == 1..nres
         e == Traces[tid][l] a == F(e, "a", 0) op == F(e, "op", "") t == F(e, "t", now)
         \* resources given back by helper activities are back once the time step is over
         br0 == IF t > now THEN SelectSeq(br, LAMBDA y : y.ph # "relx") ELSE br IN
     /\ now' = IF e.e \in {"init", "fin"} THEN now ELSE t
     /\ CASE e.e = "init" ->
               /\ slo' = [p \in Ps |-> <<Get(e.res, p), IF "resb" \in DOMAIN e THEN Get(e.resb, p) ELSE 0>>] /\ shi' = slo' /\ UNCHANGED <<br, taint, bad>>
          [] e.e = "b" /\ op \in {"borrow", "claim"} ->
               LET p == e.p IN
               \* a claim is decided on entry: it must succeed if the amount is certainly available
               /\ br' = Append(br0, [a |-> a, p |-> p, sh |-> e.sh, amt |-> Amt(e), ph |-> "acq", t |-> t,
                                     claim |-> op = "claim",
                                     sure |-> p \in Sup /\ VGe(slo[p], VAdd(Out(p), Amt(e))),
                                     never |-> p \in Sup /\ VLtSome(shi[p], VAdd(HeldBy(a, p), Amt(e)))])
               /\ UNCHANGED <<slo, shi, taint, bad>>
          [] e.e = "r" /\ op \in {"borrow", "claim"} ->
               IF ~Has(a, e.p, "acq") THEN Fail("C12.entered_without_request")
               ELSE LET i == Idx(a, e.p, "acq") IN
                    IF br[i].claim /\ t # br[i].t THEN Fail("C12.claim_waited")
                    ELSE IF br[i].claim /\ br[i].never THEN Fail("C12.claim_verdict")
                    \* nested borrowing can never exceed the share it borrows from
                    ELSE IF e.p \notin Sup /\ VGtSome(VAdd(SumAmt(br, e.p, {"hold"}), br[i].amt),
                                                    LET own == CHOOSE j \in 1..Len(br) : br[j].sh = e.p IN br[own].amt)
                         THEN Fail("C12.nested_exceeds_share")
                    ELSE br' = SetPh(i, "hold") /\ UNCHANGED <<slo, shi, taint, bad>>
          [] e.e = "x" /\ op \in {"borrow", "claim"} ->
               IF ~Has(a, e.p, "acq") THEN Fail("C12.entered_without_request")
               ELSE LET i == Idx(a, e.p, "acq") IN
                    IF ~br[i].claim \/ e.exc[1] # "unavailable" THEN Fail("C12.unexpected_exception")
                    \* (after an interrupted transfer the supply may have leaked: the known finding, not a wrong verdict)
                    ELSE IF br[i].sure THEN (IF e.p \in Ps /\ taint[e.p] THEN Fail("C12.leak_after_interrupted_transfer")
                                             ELSE Fail("C12.claim_verdict"))
                    ELSE IF t # br[i].t THEN Fail("C12.claim_waited")
                    ELSE br' = Del(i) /\ UNCHANGED <<slo, shi, taint, bad>>
          [] e.e = "u" /\ op \in {"borrow", "claim"} ->
               IF ~Has(a, e.p, "acq") THEN Fail("C12.entered_without_request")
               ELSE br' = Del(Idx(a, e.p, "acq")) /\ taint' = TaintIf(e.p, IsAbort(e.exc)) /\ UNCHANGED <<slo, shi, bad>>
          [] e.e = "b" /\ op = "leave" /\ F(e, "blk", "") = "res" ->
               IF ~Has(a, e.id, "hold") THEN Fail("C12.left_without_holding")
               ELSE br' = SetPh(Idx(a, e.id, "hold"), "rel") /\ UNCHANGED <<slo, shi, taint, bad>>
          [] e.e = "r" /\ op = "leave" /\ F(e, "blk", "") = "res" ->
               IF ~Has(a, e.id, "rel") THEN Fail("C12.left_without_holding")
               ELSE br' = Del(Idx(a, e.id, "rel")) /\ UNCHANGED <<slo, shi, taint, bad>>
          [] e.e = "u" /\ op = "leave" /\ F(e, "blk", "") = "res" ->
               IF ~Has(a, e.id, "rel") THEN Fail("C12.left_without_holding")
               ELSE br' = Del(Idx(a, e.id, "rel")) /\ taint' = TaintIf(e.id, IsAbort(e.exc)) /\ UNCHANGED <<slo, shi, bad>>
          [] e.e = "u" /\ op = "body" /\ F(e, "blk", "") = "res" ->
               IF ~Has(a, e.id, "hold") THEN Fail("C12.left_without_holding")
               ELSE LET i == Idx(a, e.id, "hold") IN
                    IF e.exc[1] = "genexit" /\ a \notin unw
                    THEN br' = SetPh(i, "relx") /\ UNCHANGED <<slo, shi, taint, bad>>
                    ELSE IF e.exc[1] = "genexit"     \* closed while an exception was already giving the resources back
                    THEN br' = Del(i) /\ taint' = TaintIf(e.id, TRUE) /\ UNCHANGED <<slo, shi, bad>>
                    ELSE br' = Del(i) /\ taint' = TaintIf(e.id, IsSignal(e.exc)) /\ UNCHANGED <<slo, shi, bad>>
          [] e.e = "b" /\ op \in {"inc", "dec", "rset"} /\ e.p \in Sup ->
               LET p == e.p IN
               \* set() replaces only the types it names (mask 1: a, 2: b, 3: both)
               LET m == F(e, "mask", 3)
                   Sel(new, old) == <<IF m \in {1, 3} THEN new[1] ELSE old[1], IF m \in {2, 3} THEN new[2] ELSE old[2]>> IN
               /\ slo' = [slo EXCEPT ![p] = IF op = "inc" THEN VAdd(@, Amt(e)) ELSE IF op = "dec" THEN VSub(@, Amt(e))
                                            ELSE Sel(VAdd(Amt(e), Held(p)), @)]
               /\ shi' = [shi EXCEPT ![p] = IF op = "inc" THEN VAdd(@, Amt(e)) ELSE IF op = "dec" THEN VSub(@, Amt(e))
                                            ELSE Sel(VAdd(Amt(e), Out(p)), @)]
               /\ br' = br0 /\ UNCHANGED <<taint, bad>>
          [] e.e = "p" /\ op = "levels" /\ e.p \in Sup ->
               LET p == e.p IN
               IF VLtSome(Lv(e), Zero) THEN Fail("C12.negative")
               ELSE IF VLtSome(VAdd(Lv(e), Out(p)), slo[p]) /\ taint[p] THEN Fail("C12.leak_after_interrupted_transfer")
               ELSE IF VLtSome(VAdd(Lv(e), Out(p)), slo[p]) \/ VGtSome(VAdd(Lv(e), HeldBy(a, p)), shi[p]) THEN Fail("C12.bounds")
               ELSE br' = br0 /\ UNCHANGED <<slo, shi, taint, bad>>
          [] e.e = "fin" ->
               IF ~e.ok THEN UNCHANGED <<slo, shi, br, taint, bad>>
               ELSE IF \E p \in Sup : VLtSome(GetV(e, p), Zero) THEN Fail("C12.negative")
               ELSE IF \E p \in Sup : slo[p] = shi[p] /\ VAdd(GetV(e, p), Held(p)) # slo[p]
                    THEN (IF \E p \in Sup : taint[p] /\ slo[p] = shi[p] /\ VAdd(GetV(e, p), Held(p)) # slo[p]
                          THEN Fail("C12.leak_after_interrupted_transfer") ELSE Fail("C12.leak_at_quiescence"))
               ELSE IF \E i \in 1..Len(br) : br[i].ph = "acq" /\ br[i].p \in Sup /\ VGe(GetV(e, br[i].p), br[i].amt)
                    THEN Fail("C12.borrower_starved")
               \* a claim is decided on entry: it cannot still be pending when nothing is left to run
               ELSE IF \E i \in 1..Len(br) : br[i].ph = "acq" /\ br[i].claim THEN Fail("C12.claim_waited")
               ELSE UNCHANGED <<slo, shi, br, taint, bad>>
          [] OTHER -> br' = br0 /\ UNCHANGED <<slo, shi, taint, bad>>
Spec == Init /\ [][Step]_vars
Report == (bad # "") => PrintT(<<"V", tid, bad, l - 1>>)
=============================================================================
