------------------------------- MODULE ObsC02 -------------------------------
(* C02 - The trace is a function of the program alone.  A "trace" here is   *)
(* the side-by-side record of ONE program executed under several            *)
(* configurations (process, PYTHONHASHSEED, heap perturbation, wait-queue   *)
(* backend, -O): row i holds the i-th observable event of every run.  The   *)
(* specification USim admits exactly one behaviour per program, so all runs *)
(* must agree at every position.                                            *)
EXTENDS ObsBase
VARIABLES tid, l, bad
vars == <<tid, l, bad>>
Init == tid \in 1..N /\ l = 1 /\ bad = ""
\* some run of this program (without -O) ended an operation, an activity or the simulation with an AssertionError
IsAssert(x) == LET exc == F(x, "exc", <<>>) IN
               \/ (Len(exc) >= 2 /\ exc[1] = "other" /\ exc[2] = "AssertionError")
               \/ ("out" \in DOMAIN x /\ F(x.out, "cls", "") = "AssertionError")
Asserted == \E j \in 1..Len(Traces[tid]) : \E i \in 1..Len(Traces[tid][j].row) : IsAssert(Traces[tid][j].row[i])
Step ==
  /\ l <= Len(Traces[tid]) /\ bad = ""
  /\ l' = l + 1 /\ UNCHANGED tid
  /\ LET row == Traces[tid][l].row
         opt == F(Traces[tid][l], "opt", [i \in 1..Len(row) |-> FALSE])
         \* the property compares runs with and without -O only for programs that trip no assertion
         Same(i, k) == row[i] = row[k] \/ (Asserted /\ opt[i] # opt[k]) IN
     bad' = IF \E i \in 1..Len(row) : \E k \in 1..Len(row) : ~Same(i, k) THEN "C02.diverged" ELSE ""
Spec == Init /\ [][Step]_vars
Report == (bad # "") => PrintT(<<"V", tid, bad, l - 1>>)
=============================================================================
