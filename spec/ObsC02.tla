------------------------------- MODULE ObsC02 -------------------------------
(* C02 - The trace is a function of the program alone.  A "trace" here is   *)
(* the side-by-side record of ONE program executed under several            *)
(* configurations (process, PYTHONHASHSEED, heap perturbation, wait-queue   *)
(* backend, -O): row i holds the i-th observable event of every run.  The   *)
(* specification USim admits exactly one behaviour per program, so all runs *)
(* must agree at every position.                                            *)
EXTENDS ObsBase
VARIABLES tid, l, bad
vars == <<tid, l, bad>>
Init == tid \in 1..N /\ l = 1 /\ bad = ""
Step ==
  /\ l <= Len(Traces[tid]) /\ bad = ""
  /\ l' = l + 1 /\ UNCHANGED tid
  /\ LET row == Traces[tid][l].row IN
     bad' = IF \E i \in 1..Len(row) : row[i] # row[1] THEN "C02.diverged" ELSE ""
Spec == Init /\ [][Step]_vars
Report == (bad # "") => PrintT(<<"V", tid, bad, l - 1>>)
=============================================================================
