SPECIFICATION Spec
CONSTANTS
  MaxN = 3
  MaxDur = 2
INVARIANT OrderIsPermutation
INVARIANT OrderSorted
INVARIANT FailTimeIsFirst
INVARIANT Emit
CHECK_DEADLOCK FALSE
