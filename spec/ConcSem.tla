------------------------------ MODULE ConcSem ------------------------------
(* Matching rule of Concurrent[...] (C17) over a finite class hierarchy:    *)
(*   Exception > LookupError > {KeyError, IndexError};  Exception > ValueError *)
(*   Exception > TwinError  (in the harness a DIFFERENT class whose __name__ *)
(*   is also "ValueError": classes are told apart by identity, not by name)  *)
(* A child is <<"P", class>> or a nested failure <<"C", kids>>; a handler   *)
(* item is <<"P", class>> or a nested specialisation <<"C", items, incl>>.  *)
EXTENDS Naturals, Sequences, FiniteSets
Plain == {"Exception", "LookupError", "KeyError", "IndexError", "ValueError", "TwinError"}
Parent(c) == CASE c = "KeyError" -> "LookupError" [] c = "IndexError" -> "LookupError"
               [] c = "LookupError" -> "Exception" [] c = "ValueError" -> "Exception"
               [] c = "TwinError" -> "Exception" [] OTHER -> ""
RECURSIVE Sub(_, _)
Sub(c, d) == c = d \/ (Parent(c) # "" /\ Sub(Parent(c), d))       \* issubclass for plain classes
P(c) == <<"P", c>>             \* a plain class as child type / handler item (uniform tuples for TLC)
IsNested(x) == x[1] = "C"
KidSet(kids) == {kids[i] : i \in 1..Len(kids)}
\* does child type c match handler item h ?
RECURSIVE MatchItem(_, _), Matches(_, _, _)
MatchItem(c, h) ==
  IF ~IsNested(c) /\ ~IsNested(h) THEN Sub(c[2], h[2])
  ELSE IF IsNested(c) /\ IsNested(h) THEN Matches(KidSet(c[2]), h[2], h[3])
  ELSE FALSE            \* a nested Concurrent is not an Exception subclass; a plain class is no Concurrent
\* Concurrent[items] (inclusive: trailing ...) matches a failure whose children have the types in `kids`
Matches(kids, items, inclusive) ==
  /\ \A h \in items : \E c \in kids : MatchItem(c, h)
  /\ inclusive \/ \A c \in kids : \E h \in items : MatchItem(c, h)
\* leaves of a failure in order (flattened())
RECURSIVE Leaves(_)
Leaves(kids) == IF kids = <<>> THEN <<>>
                ELSE (IF IsNested(Head(kids)) THEN Leaves(Head(kids)[2]) ELSE <<Head(kids)[2]>>) \o Leaves(Tail(kids))
=============================================================================
