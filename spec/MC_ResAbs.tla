----------------------------- MODULE MC_ResAbs ------------------------------
(* Apalache wrapper for ResAbs: NonNegative (no type of the level and no    *)
(* type of the ledger ever drops below zero) is inductive - for any amounts,*)
(* any number of steps.                                                     *)
(*   apalache-mc check --init=Init    --inv=IndInv --length=0 MC_ResAbs.tla  *)
(*   apalache-mc check --init=IndInit --inv=IndInv --length=1 MC_ResAbs.tla  *)
EXTENDS Integers, Sequences
VARIABLES
  \* @type: <<Int, Int>>;
  level,
  \* @type: <<Int, Int>>;
  out
INSTANCE ResAbs
IndInit == /\ level \in Int \X Int /\ out \in Int \X Int
           /\ IndInv
=============================================================================
