SPECIFICATION Spec
CONSTANTS
  NP = 2
  NS = 2
INVARIANT Emit
CHECK_DEADLOCK FALSE
