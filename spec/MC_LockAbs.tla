----------------------------- MODULE MC_LockAbs -----------------------------
(* Apalache wrapper for LockAbs: proves IndInv inductive for 4 contenders,  *)
(* any re-entrancy depth and any reachable queue (runs of any length):      *)
(*   apalache-mc check --init=Init    --inv=IndInv --length=0 MC_LockAbs.tla *)
(*   apalache-mc check --init=IndInit --inv=IndInv --length=1 MC_LockAbs.tla *)
EXTENDS Naturals, Sequences, Apalache
Procs == {1, 2, 3, 4}
VARIABLES
  \* @type: Int;
  owner,
  \* @type: Int;
  depth,
  \* @type: Seq(Int);
  queue
INSTANCE LockAbs
\* an arbitrary state that satisfies the invariant
IndInit == /\ owner \in Procs \cup {0}
           /\ depth \in Nat
           /\ queue = Gen(5)
           /\ IndInv
=============================================================================
